(* C55 -- proofs over the definitions regenerated from /repo (C55_gen.v) *)
From Coq Require Import Reals List Lra Lia.
From Coquelicot Require Import Coquelicot.
From VLib Require Import RealExtra.
From C55 Require Import C55Spec C55_gen.
Import ListNotations.
Local Open Scope R_scope.

Ltac nz := repeat split; try assumption; try (apply Rgt_not_eq; assumption); try lra;
  try (apply Rmult_integral_contrapositive_currified; nz).

(* ------------------------------------------------------------------ 1D stresses *)
Ltac stress1 gen :=
  cbv zeta; intros; unfold gen, svk_sigma, svk_P, svk_S, hencky_sigma, hencky_S, hencky_P, hencky_tau, E1, J1, sel, nthR; cbn [nth];
  repeat (match goal with |- _ /\ _ => split end); timeout 120 (try reflexivity; field; nz).

Lemma gl1_cauchy_ok la mu f0 f1 f2 g0 g1 g2 : f0 <> 0 -> f1 <> 0 -> f2 <> 0 ->
  let r := gl1_stress_cauchy f0 f1 f2 g0 g1 g2 la mu in
  nthR r 0 = svk_sigma la mu 0 f0 f1 f2 /\ nthR r 1 = svk_sigma la mu 1 f0 f1 f2 /\ nthR r 2 = svk_sigma la mu 2 f0 f1 f2.
Proof. stress1 gl1_stress_cauchy. Qed.
Lemma gl1_pk2_ok la mu f0 f1 f2 g0 g1 g2 : f0 <> 0 -> f1 <> 0 -> f2 <> 0 ->
  let r := gl1_stress_pk2 f0 f1 f2 g0 g1 g2 la mu in
  nthR r 0 = svk_S la mu 0 f0 f1 f2 /\ nthR r 1 = svk_S la mu 1 f0 f1 f2 /\ nthR r 2 = svk_S la mu 2 f0 f1 f2.
Proof. stress1 gl1_stress_pk2. Qed.
Lemma gl1_pk1_ok la mu f0 f1 f2 g0 g1 g2 : f0 <> 0 -> f1 <> 0 -> f2 <> 0 ->
  let r := gl1_stress_pk1 f0 f1 f2 g0 g1 g2 la mu in
  nthR r 0 = svk_P la mu 0 f0 f1 f2 /\ nthR r 1 = svk_P la mu 1 f0 f1 f2 /\ nthR r 2 = svk_P la mu 2 f0 f1 f2.
Proof. stress1 gl1_stress_pk1. Qed.
Lemma log1_cauchy_ok la mu f0 f1 f2 g0 g1 g2 : 0 < f0 -> 0 < f1 -> 0 < f2 ->
  let r := log1_stress_cauchy f0 f1 f2 g0 g1 g2 la mu in
  nthR r 0 = hencky_sigma la mu 0 f0 f1 f2 /\ nthR r 1 = hencky_sigma la mu 1 f0 f1 f2 /\ nthR r 2 = hencky_sigma la mu 2 f0 f1 f2.
Proof. stress1 log1_stress_cauchy. Qed.
Lemma log1_pk2_ok la mu f0 f1 f2 g0 g1 g2 : 0 < f0 -> 0 < f1 -> 0 < f2 ->
  let r := log1_stress_pk2 f0 f1 f2 g0 g1 g2 la mu in
  nthR r 0 = hencky_S la mu 0 f0 f1 f2 /\ nthR r 1 = hencky_S la mu 1 f0 f1 f2 /\ nthR r 2 = hencky_S la mu 2 f0 f1 f2.
Proof. stress1 log1_stress_pk2. Qed.
Lemma log1_pk1_ok la mu f0 f1 f2 g0 g1 g2 : 0 < f0 -> 0 < f1 -> 0 < f2 ->
  let r := log1_stress_pk1 f0 f1 f2 g0 g1 g2 la mu in
  nthR r 0 = hencky_P la mu 0 f0 f1 f2 /\ nthR r 1 = hencky_P la mu 1 f0 f1 f2 /\ nthR r 2 = hencky_P la mu 2 f0 f1 f2.
Proof. stress1 log1_stress_pk1. Qed.

(* ------------------------------------------------------------------ 1D tangent operators are derivatives *)
(* [jacobian op phi scale]: entry (i,j) of op times scale j is the derivative of phi i along the j-th stretch *)
Definition jacobian (op : list R) (phi : nat -> R -> R -> R -> R) (scale : nat -> R) (f0 f1 f2 : R) : Prop :=
  forall i j, (i < 3)%nat -> (j < 3)%nat ->
    is_derive (along j (phi i) f0 f1 f2) (sel j f0 f1 f2) (nthR op (3 * i + j) * scale j).

Ltac deriv gen :=
  unfold along, gen, svk_sigma, svk_P, svk_tau, svk_S, hencky_sigma, hencky_S, hencky_P, hencky_tau, E1, J1, sel, nthR;
  cbn [nth Nat.mul Nat.add];
  timeout 300 (auto_derive; [ nz | timeout 300 (field; nz) ]).

Lemma lt3_cases i : (i < 3)%nat -> i = 0%nat \/ i = 1%nat \/ i = 2%nat.
Proof. intro H. destruct i as [|[|[|i]]]; auto. exfalso. lia. Qed.
Ltac ij2 := intros i j Hi Hj; destruct (lt3_cases i Hi) as [->|[->| ->]]; destruct (lt3_cases j Hj) as [->|[->| ->]].

Ltac jac gen := cbv zeta; intros; unfold jacobian; ij2; deriv gen.

Lemma gl1_dsig_df_ok la mu f0 f1 f2 g0 g1 g2 : 0 < f0 -> 0 < f1 -> 0 < f2 ->
  jacobian (gl1_dsig_df f0 f1 f2 g0 g1 g2 la mu) (svk_sigma la mu) (fun _ => 1) f0 f1 f2.
Proof. jac gl1_dsig_df. Qed.
Lemma gl1_dpk1_df_ok la mu f0 f1 f2 g0 g1 g2 : 0 < f0 -> 0 < f1 -> 0 < f2 ->
  jacobian (gl1_dpk1_df f0 f1 f2 g0 g1 g2 la mu) (svk_P la mu) (fun _ => 1) f0 f1 f2.
Proof. jac gl1_dpk1_df. Qed.
(* dS/dE_GL: E_j = (f_j^2-1)/2, dE_j/df_j = f_j *)
Lemma gl1_ds_degl_ok la mu f0 f1 f2 g0 g1 g2 : 0 < f0 -> 0 < f1 -> 0 < f2 ->
  jacobian (gl1_ds_degl f0 f1 f2 g0 g1 g2 la mu) (svk_S la mu) (fun j => sel j f0 f1 f2) f0 f1 f2.
Proof. jac gl1_ds_degl. Qed.
(* dtau/dDF with F1 = DF F0: d/dDF_j = g_j d/df_j *)
Lemma gl1_dtau_ddf_ok la mu f0 f1 f2 g0 g1 g2 : 0 < f0 -> 0 < f1 -> 0 < f2 -> 0 < g0 -> 0 < g1 -> 0 < g2 ->
  jacobian (gl1_dtau_ddf f0 f1 f2 g0 g1 g2 la mu) (svk_tau la mu) (fun j => / sel j g0 g1 g2) f0 f1 f2.
Proof. jac gl1_dtau_ddf. Qed.
Lemma log1_dsig_df_ok la mu f0 f1 f2 g0 g1 g2 : 0 < f0 -> 0 < f1 -> 0 < f2 ->
  jacobian (log1_dsig_df f0 f1 f2 g0 g1 g2 la mu) (hencky_sigma la mu) (fun _ => 1) f0 f1 f2.
Proof. jac log1_dsig_df. Qed.
Lemma log1_dpk1_df_ok la mu f0 f1 f2 g0 g1 g2 : 0 < f0 -> 0 < f1 -> 0 < f2 ->
  jacobian (log1_dpk1_df f0 f1 f2 g0 g1 g2 la mu) (hencky_P la mu) (fun _ => 1) f0 f1 f2.
Proof. jac log1_dpk1_df. Qed.
Lemma log1_ds_degl_ok la mu f0 f1 f2 g0 g1 g2 : 0 < f0 -> 0 < f1 -> 0 < f2 ->
  jacobian (log1_ds_degl f0 f1 f2 g0 g1 g2 la mu) (hencky_S la mu) (fun j => sel j f0 f1 f2) f0 f1 f2.
Proof. jac log1_ds_degl. Qed.

(* ------------------------------------------------------------------ 3D stresses, general F *)
Lemma cons_eq (a b : R) (l m : list R) : a = b -> l = m -> a :: l = b :: m.
Proof. intros -> ->. reflexivity. Qed.
Ltac comps := repeat (apply cons_eq; [|]); try reflexivity.
Ltac unf3 gen := intros; unfold gen, stensor_of, tensor_of, sigsvk, Psvk, Ssvk, Egl, det3, sum3, Fm, delta, nthR; cbn [nth Nat.eqb].

Lemma gl3_pk2_ok la mu f0 f1 f2 f3 f4 f5 f6 f7 f8 :
  gl3_stress_pk2 f0 f1 f2 f3 f4 f5 f6 f7 f8 la mu = stensor_of (Ssvk la mu [f0; f1; f2; f3; f4; f5; f6; f7; f8]) ++ [0; 0; 0].
Proof. unf3 gl3_stress_pk2. cbn [app]. comps; timeout 200 (first [ring [sqrt2_sq] | (field_simplify_eq; ring [sqrt2_sq]) | (field_simplify_eq; [ring [sqrt2_sq] | exact sqrt2_neq0 ..])]). Qed.

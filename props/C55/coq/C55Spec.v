(* C55 -- specification, written from continuum mechanics, independently of the code.
   1D hypotheses: F = diag(f0,f1,f2) (rr, zz, tt).  3D: F given by its 9 components in TFEL's storage order
   (xx yy zz xy yx xz zx yz zy); symmetric tensors in TFEL's storage (xx yy zz sqrt2*xy sqrt2*xz sqrt2*yz). *)
From Coq Require Import Reals List.
Import ListNotations.
Local Open Scope R_scope.

Definition nthR (l : list R) (i : nat) : R := nth i l 0.

(* ------------------------------------------------------------------ 1D *)
Section OneD.
  Variables la mu : R.
  Definition J1 (f0 f1 f2 : R) := f0 * f1 * f2.
  Definition sel (i : nat) (f0 f1 f2 : R) : R := match i with O => f0 | S O => f1 | _ => f2 end.
  (* Green-Lagrange strain and Saint-Venant Kirchhoff law: S = la tr(E) I + 2 mu E *)
  Definition E1 (i : nat) (f0 f1 f2 : R) := (sel i f0 f1 f2 * sel i f0 f1 f2 - 1) / 2.
  Definition svk_S (i : nat) (f0 f1 f2 : R) := la * (E1 0 f0 f1 f2 + E1 1 f0 f1 f2 + E1 2 f0 f1 f2) + 2 * mu * E1 i f0 f1 f2.
  (* sigma = F S F^T / J,  P = F S,  tau = J sigma *)
  Definition svk_sigma (i : nat) (f0 f1 f2 : R) := sel i f0 f1 f2 * svk_S i f0 f1 f2 * sel i f0 f1 f2 / J1 f0 f1 f2.
  Definition svk_P (i : nat) (f0 f1 f2 : R) := sel i f0 f1 f2 * svk_S i f0 f1 f2.
  Definition svk_tau (i : nat) (f0 f1 f2 : R) := sel i f0 f1 f2 * svk_S i f0 f1 f2 * sel i f0 f1 f2.
  (* Hencky strain h = ln V and Hencky's hyperelastic law: tau = la tr(h) I + 2 mu h *)
  Definition hencky_tau (i : nat) (f0 f1 f2 : R) := la * (ln f0 + ln f1 + ln f2) + 2 * mu * ln (sel i f0 f1 f2).
  Definition hencky_sigma (i : nat) (f0 f1 f2 : R) := hencky_tau i f0 f1 f2 / J1 f0 f1 f2.
  Definition hencky_S (i : nat) (f0 f1 f2 : R) := hencky_tau i f0 f1 f2 / (sel i f0 f1 f2 * sel i f0 f1 f2).
  Definition hencky_P (i : nat) (f0 f1 f2 : R) := hencky_tau i f0 f1 f2 / sel i f0 f1 f2.
End OneD.

(* partial derivative with respect to the j-th stretch *)
Definition along (j : nat) (phi : R -> R -> R -> R) (f0 f1 f2 : R) : R -> R :=
  match j with O => fun x => phi x f1 f2 | S O => fun x => phi f0 x f2 | _ => fun x => phi f0 f1 x end.

(* ------------------------------------------------------------------ 3D *)
Section ThreeD.
  Variables la mu : R.
  (* F as a matrix, from TFEL's storage *)
  Definition Fm (f : list R) (i j : nat) : R :=
    match i, j with
    | O, O => nthR f 0 | S O, S O => nthR f 1 | S (S O), S (S O) => nthR f 2
    | O, S O => nthR f 3 | S O, O => nthR f 4 | O, S (S O) => nthR f 5 | S (S O), O => nthR f 6
    | S O, S (S O) => nthR f 7 | S (S O), S O => nthR f 8
    | _, _ => 0
    end.
  Definition sum3 (g : nat -> R) := g 0%nat + g 1%nat + g 2%nat.
  Definition delta (i j : nat) : R := if Nat.eqb i j then 1 else 0.
  Definition Egl (f : list R) (i j : nat) := (sum3 (fun k => Fm f k i * Fm f k j) - delta i j) / 2.
  Definition Ssvk (f : list R) (i j : nat) := la * sum3 (fun k => Egl f k k) * delta i j + 2 * mu * Egl f i j.
  Definition det3 (f : list R) :=
    Fm f 0 0 * (Fm f 1 1 * Fm f 2 2 - Fm f 1 2 * Fm f 2 1) - Fm f 0 1 * (Fm f 1 0 * Fm f 2 2 - Fm f 1 2 * Fm f 2 0)
    + Fm f 0 2 * (Fm f 1 0 * Fm f 2 1 - Fm f 1 1 * Fm f 2 0).
  Definition Psvk (f : list R) (i j : nat) := sum3 (fun k => Fm f i k * Ssvk f k j).
  Definition sigsvk (f : list R) (i j : nat) := sum3 (fun k => Psvk f i k * Fm f j k) / det3 f.
  (* storage of a symmetric / unsymmetric second order tensor *)
  Definition stensor_of (m : nat -> nat -> R) : list R :=
    [m 0%nat 0%nat; m 1%nat 1%nat; m 2%nat 2%nat; sqrt 2 * m 0%nat 1%nat; sqrt 2 * m 0%nat 2%nat; sqrt 2 * m 1%nat 2%nat].
  Definition tensor_of (m : nat -> nat -> R) : list R :=
    [m 0 0; m 1 1; m 2 2; m 0 1; m 1 0; m 0 2; m 2 0; m 1 2; m 2 1]%nat.
End ThreeD.

(* ------------------------------------------------------------------ plane stress hypotheses (second round)
   The axial stress vanishes: S_axial = 0 defines the axial Green-Lagrange strain, hence the TRUE axial stretch
   z = sqrt (1 + 2 E_axial); every stress measure is the Saint-Venant Kirchhoff one evaluated with the true F. *)
Section PlaneStress.
  Variables la mu : R.
  (* 1D, (rr, zz, tt): the axial direction is component 1 *)
  Definition ps1_Eax (f0 f2 : R) : R := - la / (la + 2 * mu) * (E1 0 f0 1 f2 + E1 2 f0 1 f2).
  Definition ps1_z (f0 f2 : R) : R := sqrt (1 + 2 * ps1_Eax f0 f2).
  (* 2D, (xx yy zz xy yx): the axial direction is component 2; F with a given axial stretch z, as a 3D list *)
  Definition F2d (f0 f1 z f3 f4 : R) : list R := [f0; f1; z; f3; f4; 0; 0; 0; 0].
  Definition ps2_Eax (f0 f1 f3 f4 : R) : R := - la / (la + 2 * mu) * (Egl (F2d f0 f1 1 f3 f4) 0 0 + Egl (F2d f0 f1 1 f3 f4) 1 1).
  Definition ps2_z (f0 f1 f3 f4 : R) : R := sqrt (1 + 2 * ps2_Eax f0 f1 f3 f4).
End PlaneStress.
(* storage of 2D tensors: the first 4 (symmetric) resp. 5 (unsymmetric) components of the 3D storage *)
Definition stensor2_of (m : nat -> nat -> R) : list R := [m 0%nat 0%nat; m 1%nat 1%nat; m 2%nat 2%nat; sqrt 2 * m 0%nat 1%nat].
Definition tensor2_of (m : nat -> nat -> R) : list R := [m 0 0; m 1 1; m 2 2; m 0 1; m 1 0]%nat.
(* tau = F S F^T *)
Definition tausvk (la mu : R) (f : list R) (i j : nat) := sum3 (fun k => Psvk la mu f i k * Fm f j k).

(* plane stress, 1D: the material response depends on the in-plane stretches only (la* = 2 la mu/(la+2mu), in-plane trace); the axial
   stretch x1 enters the push-forward as an independent argument.  At the true axial stretch these are the SVK closed forms
   (C55_plane_stress_1D_closed_forms) *)
Definition ps1_S (la mu : R) (i : nat) (x0 x1 x2 : R) : R :=
  match i with 1%nat => 0 | _ => 2 * la * mu / (la + 2 * mu) * (E1 0 x0 1 x2 + E1 2 x0 1 x2) + 2 * mu * E1 i x0 1 x2 end.
Definition ps1_sigma (la mu : R) (i : nat) (x0 x1 x2 : R) : R := sel i x0 x1 x2 * ps1_S la mu i x0 x1 x2 * sel i x0 x1 x2 / J1 x0 x1 x2.
Definition ps1_P (la mu : R) (i : nat) (x0 x1 x2 : R) : R := sel i x0 x1 x2 * ps1_S la mu i x0 x1 x2.


(* C55 -- property theorems (statements only; proofs in C55Proofs.v, over definitions regenerated from /repo) *)
From Coq Require Import Reals List.
From Coquelicot Require Import Coquelicot.
From C55 Require Import C55Spec C55_gen C55Proofs.
Import ListNotations.
Local Open Scope R_scope.

(* Green-Lagrange strategy + Hooke = Saint-Venant Kirchhoff, 1D hypotheses, in each stress measure *)
Theorem C55_green_lagrange_1D_cauchy : forall la mu f0 f1 f2 g0 g1 g2, f0 <> 0 -> f1 <> 0 -> f2 <> 0 ->
  let r := gl1_stress_cauchy f0 f1 f2 g0 g1 g2 la mu in
  nthR r 0 = svk_sigma la mu 0 f0 f1 f2 /\ nthR r 1 = svk_sigma la mu 1 f0 f1 f2 /\ nthR r 2 = svk_sigma la mu 2 f0 f1 f2.
Proof. exact gl1_cauchy_ok. Qed.
Print Assumptions C55_green_lagrange_1D_cauchy.
Theorem C55_green_lagrange_1D_pk2 : forall la mu f0 f1 f2 g0 g1 g2, f0 <> 0 -> f1 <> 0 -> f2 <> 0 ->
  let r := gl1_stress_pk2 f0 f1 f2 g0 g1 g2 la mu in
  nthR r 0 = svk_S la mu 0 f0 f1 f2 /\ nthR r 1 = svk_S la mu 1 f0 f1 f2 /\ nthR r 2 = svk_S la mu 2 f0 f1 f2.
Proof. exact gl1_pk2_ok. Qed.
Print Assumptions C55_green_lagrange_1D_pk2.
Theorem C55_green_lagrange_1D_pk1 : forall la mu f0 f1 f2 g0 g1 g2, f0 <> 0 -> f1 <> 0 -> f2 <> 0 ->
  let r := gl1_stress_pk1 f0 f1 f2 g0 g1 g2 la mu in
  nthR r 0 = svk_P la mu 0 f0 f1 f2 /\ nthR r 1 = svk_P la mu 1 f0 f1 f2 /\ nthR r 2 = svk_P la mu 2 f0 f1 f2.
Proof. exact gl1_pk1_ok. Qed.
Print Assumptions C55_green_lagrange_1D_pk1.

(* ... and every tangent operator flavour is the derivative of the corresponding stress *)
Theorem C55_green_lagrange_1D_dsig_df : forall la mu f0 f1 f2 g0 g1 g2, 0 < f0 -> 0 < f1 -> 0 < f2 ->
  jacobian (gl1_dsig_df f0 f1 f2 g0 g1 g2 la mu) (svk_sigma la mu) (fun _ => 1) f0 f1 f2.
Proof. exact gl1_dsig_df_ok. Qed.
Print Assumptions C55_green_lagrange_1D_dsig_df.
Theorem C55_green_lagrange_1D_dpk1_df : forall la mu f0 f1 f2 g0 g1 g2, 0 < f0 -> 0 < f1 -> 0 < f2 ->
  jacobian (gl1_dpk1_df f0 f1 f2 g0 g1 g2 la mu) (svk_P la mu) (fun _ => 1) f0 f1 f2.
Proof. exact gl1_dpk1_df_ok. Qed.
Print Assumptions C55_green_lagrange_1D_dpk1_df.
Theorem C55_green_lagrange_1D_ds_degl : forall la mu f0 f1 f2 g0 g1 g2, 0 < f0 -> 0 < f1 -> 0 < f2 ->
  jacobian (gl1_ds_degl f0 f1 f2 g0 g1 g2 la mu) (svk_S la mu) (fun j => sel j f0 f1 f2) f0 f1 f2.
Proof. exact gl1_ds_degl_ok. Qed.
Print Assumptions C55_green_lagrange_1D_ds_degl.
Theorem C55_green_lagrange_1D_dtau_ddf : forall la mu f0 f1 f2 g0 g1 g2, 0 < f0 -> 0 < f1 -> 0 < f2 -> 0 < g0 -> 0 < g1 -> 0 < g2 ->
  jacobian (gl1_dtau_ddf f0 f1 f2 g0 g1 g2 la mu) (svk_tau la mu) (fun j => / sel j g0 g1 g2) f0 f1 f2.
Proof. exact gl1_dtau_ddf_ok. Qed.
Print Assumptions C55_green_lagrange_1D_dtau_ddf.

(* Hencky strategy + Hooke = Hencky hyperelasticity (tau = la tr(ln V) I + 2 mu ln V), 1D hypotheses *)
Theorem C55_hencky_1D_cauchy : forall la mu f0 f1 f2 g0 g1 g2, 0 < f0 -> 0 < f1 -> 0 < f2 ->
  let r := log1_stress_cauchy f0 f1 f2 g0 g1 g2 la mu in
  nthR r 0 = hencky_sigma la mu 0 f0 f1 f2 /\ nthR r 1 = hencky_sigma la mu 1 f0 f1 f2 /\ nthR r 2 = hencky_sigma la mu 2 f0 f1 f2.
Proof. exact log1_cauchy_ok. Qed.
Print Assumptions C55_hencky_1D_cauchy.
Theorem C55_hencky_1D_pk2 : forall la mu f0 f1 f2 g0 g1 g2, 0 < f0 -> 0 < f1 -> 0 < f2 ->
  let r := log1_stress_pk2 f0 f1 f2 g0 g1 g2 la mu in
  nthR r 0 = hencky_S la mu 0 f0 f1 f2 /\ nthR r 1 = hencky_S la mu 1 f0 f1 f2 /\ nthR r 2 = hencky_S la mu 2 f0 f1 f2.
Proof. exact log1_pk2_ok. Qed.
Print Assumptions C55_hencky_1D_pk2.
Theorem C55_hencky_1D_pk1 : forall la mu f0 f1 f2 g0 g1 g2, 0 < f0 -> 0 < f1 -> 0 < f2 ->
  let r := log1_stress_pk1 f0 f1 f2 g0 g1 g2 la mu in
  nthR r 0 = hencky_P la mu 0 f0 f1 f2 /\ nthR r 1 = hencky_P la mu 1 f0 f1 f2 /\ nthR r 2 = hencky_P la mu 2 f0 f1 f2.
Proof. exact log1_pk1_ok. Qed.
Print Assumptions C55_hencky_1D_pk1.
Theorem C55_hencky_1D_dsig_df : forall la mu f0 f1 f2 g0 g1 g2, 0 < f0 -> 0 < f1 -> 0 < f2 ->
  jacobian (log1_dsig_df f0 f1 f2 g0 g1 g2 la mu) (hencky_sigma la mu) (fun _ => 1) f0 f1 f2.
Proof. exact log1_dsig_df_ok. Qed.
Print Assumptions C55_hencky_1D_dsig_df.
Theorem C55_hencky_1D_dpk1_df : forall la mu f0 f1 f2 g0 g1 g2, 0 < f0 -> 0 < f1 -> 0 < f2 ->
  jacobian (log1_dpk1_df f0 f1 f2 g0 g1 g2 la mu) (hencky_P la mu) (fun _ => 1) f0 f1 f2.
Proof. exact log1_dpk1_df_ok. Qed.
Print Assumptions C55_hencky_1D_dpk1_df.
Theorem C55_hencky_1D_ds_degl : forall la mu f0 f1 f2 g0 g1 g2, 0 < f0 -> 0 < f1 -> 0 < f2 ->
  jacobian (log1_ds_degl f0 f1 f2 g0 g1 g2 la mu) (hencky_S la mu) (fun j => sel j f0 f1 f2) f0 f1 f2.
Proof. exact log1_ds_degl_ok. Qed.
Print Assumptions C55_hencky_1D_ds_degl.

(* 3D, any deformation gradient: the second Piola-Kirchhoff stress returned is the Saint-Venant Kirchhoff stress *)
Theorem C55_green_lagrange_3D_pk2 : forall la mu f0 f1 f2 f3 f4 f5 f6 f7 f8,
  gl3_stress_pk2 f0 f1 f2 f3 f4 f5 f6 f7 f8 la mu = stensor_of (Ssvk la mu [f0; f1; f2; f3; f4; f5; f6; f7; f8]) ++ [0; 0; 0].
Proof. exact gl3_pk2_ok. Qed.
Print Assumptions C55_green_lagrange_3D_pk2.

"""C55 -- strain-measure finite-strain strategies are hyperelastically consistent.
Engine S: the sequence of /repo's templated helpers that green_lagrange_strain::integrate and
logarithmic_strain::integrate apply around a small strain behaviour (here Hooke's law) is traced with symv::Sym and
printed as Coq definitions on every run; Coq proves Saint-Venant Kirchhoff / Hencky hyperelasticity in each stress measure and
`tangent = derivative of the stress` (Coquelicot) for each tangent operator flavour (1D hypotheses), and SVK for PK2 in 3D
for any F.  Tie: the traced expressions are compared, on seeded deformation gradients and moduli, with what the REAL
wrappers (double) return through the generic-interface data structure for a Hooke behaviour, in 1D and 3D, for every
K[1] x K[2]."""
import os
from vlib import guarded_main

SUPPORT = ["src/Exception/ContractViolation.cxx", "src/Exception/TFELException.cxx", "src/Material/MaterialException.cxx",
           "src/Material/LogarithmicStrainHandler.cxx", "src/Math/LUException.cxx", "src/Math/MathException.cxx",
           "src/Utilities/GenTypeCastError.cxx"]


def main(c):
    exe = c.cxx("trace", ["trace.cxx"], SUPPORT)
    gen = os.path.join(c.work, "coq", "C55_gen.v")
    os.makedirs(os.path.dirname(gen), exist_ok=True)
    rc, out, err = c.run([exe, "gen", gen, str(c.seed), str(c.pick(6, 60))])
    if rc != 0 or "END agree=" not in out:
        c.report("trace", "tracer failed on /repo's finite strain helpers / wrappers: " + err[-500:], {"stderr": err[-3000:]}, False)
        return
    n = 0
    for l in out.splitlines():
        if not l.startswith("AGREE"):
            continue
        n += 1
        t = l.split()
        c.count(1, t[1] + ":" + t[-1], True)
        if n % 40 == 1:
            c.sample({"agreement": l[:400]})
        if l.startswith("AGREE-FAIL"):
            # concrete input: wrapper, stress measure, operator, F0, F1, moduli
            c.report("agree:" + t[1], "the real wrapper (double) and the traced helper sequence disagree (%s): %s" % (t[1], l[:900]),
                     {"line": l, "how": "props/C55/trace.cxx gen <file> %d" % c.seed}, True)
    c.coverage["traces_validated_against_impl"] = n
    c.trusted("engine S tracer (cxx/sym/sym.hxx), g++ template instantiation of the helpers with Sym",
              "props/C55/trace.cxx: the sequence of helper calls is transcribed from the wrapper headers; checked by agreement with the real "
              "wrappers (double, relative 1e-10) on seeded F0, F1, lambda, mu for every K[1] x K[2], 1D and 3D",
              "Hooke behaviour class of the tracer (stands for a generated small strain elastic behaviour)")
    res = c.coq([gen, "C55Spec.v", "C55Proofs.v", "Properties_C55.v"], timeout=900)
    if not res.ok:
        if c.violations and any(v[3] for v in c.violations):
            c.notes.append("proof obligations failed: %s; concrete failing inputs reported above" % [f[2] for f in res.failed])
        else:
            c.coq_failures(res)
    c.coverage["rule"] = ("seeded random deformation gradients (stretches 0.4..1.6 in 1D, perturbations of the identity up to 0.25 in 3D), moduli, "
                          "x wrapper {Green-Lagrange 1D/3D, Hencky 1D} x stress measure K[1] in {0,1,2} x operator K[2] in {0,1,2,3}")


guarded_main("C55", main)

"""C55 -- strain-measure finite-strain strategies are hyperelastically consistent.
Engine S: the sequence of /repo's templated helpers that green_lagrange_strain::integrate and
logarithmic_strain::integrate apply around a small strain behaviour (here Hooke's law) is traced with symv::Sym and
printed as Coq definitions on every run; Coq proves Saint-Venant Kirchhoff / Hencky hyperelasticity in each stress measure and
`tangent = derivative of the stress` (Coquelicot) for each tangent operator flavour (1D hypotheses, plane stress included), the three
SVK stress measures for any F in 2D (plane stress included) and 3D.
Tie 1: the traced expressions are compared, on seeded deformation gradients and moduli, with what the REAL wrappers (double) return
through the generic-interface data structure for a Hooke behaviour (1D, 1D plane stress, 2D, 2D plane stress, 3D; every K[1] x K[2]).
Tie 2 (second round): the three REAL wrappers (Green-Lagrange, Hencky, standard finite strain) are run for ALL seven hypotheses x
K[1] x K[2] with behaviour classes whose axial strain / axial deformation gradient (plane stress) is an internal state variable that
changes over the step, and judged by an independent oracle (oracle.py: SVK / Hencky closed forms with the TRUE end-of-step F,
finite differences for the tangent operators)."""
import math
import os
import re
import sys
import threading
from vlib import guarded_main

sys.path.insert(0, os.path.dirname(os.path.abspath(__file__)))
import oracle as O  # noqa: E402

SUPPORT = ["src/Exception/ContractViolation.cxx", "src/Exception/TFELException.cxx", "src/Material/MaterialException.cxx",
           "src/Material/LogarithmicStrainHandler.cxx", "src/Math/LUException.cxx", "src/Math/MathException.cxx",
           "src/Utilities/GenTypeCastError.cxx"]
WN = ["green_lagrange", "hencky", "finite_strain"]
LAW = ["svk", "hencky", "svk"]
SMN = ["cauchy", "pk2", "pk1"]
TN = ["dsig_df", "ds_degl", "dpk1_df", "dtau_ddf"]
TOL_STRESS = 1e-8
TOL_K = 2e-6


def rot(axis, th):
    c, s = math.cos(th), math.sin(th)
    R = O.eye()
    i, j = [(1, 2), (0, 2), (0, 1)][axis]
    R[i][i] = c
    R[j][j] = c
    R[i][j] = -s
    R[j][i] = s
    return R


def rand_F(rng, h, amp, rotamp):
    """deformation gradient with the structure of the hypothesis: rotation (about z in 2D, any in 3D) times stretch + shear"""
    d = O.DIM[h]
    A = O.eye()
    for i in range(3):
        A[i][i] = 1 + amp * rng.uniform(-1, 1)
    if d >= 2:
        A[0][1] = 0.6 * amp * rng.uniform(-1, 1)
        A[1][0] = 0.6 * amp * rng.uniform(-1, 1)
    if d == 3:
        for (i, j) in ((0, 2), (2, 0), (1, 2), (2, 1)):
            A[i][j] = 0.6 * amp * rng.uniform(-1, 1)
    R = O.eye()
    if d >= 2:
        R = rot(2, rotamp * rng.uniform(-1, 1))
    if d == 3:
        R = O.mul(rot(0, rotamp * rng.uniform(-1, 1)), O.mul(rot(1, rotamp * rng.uniform(-1, 1)), R))
    return O.mul(R, A)


def make_case(rng, w, h, sm, smf):
    """true F0, F1 (3x3), moduli, value of the axial internal state variable at the beginning of the step"""
    ax = O.AXIAL.get(h)
    for _ in range(200):
        la = 100e9 * (1.2 + rng.uniform(-1, 1))
        mu = 80e9 * (1.2 + rng.uniform(-1, 1))
        F0 = rand_F(rng, h, 0.25, 0.5)
        F1 = rand_F(rng, h, 0.4, 3.0)
        if O.det(F0) < 0.2 or O.det(F1) < 0.2:
            continue
        a0 = 0.0
        if ax is not None:
            try:
                e0, z0 = O.axial_measure(LAW[w], la, mu, F0, ax)
                e1, z1 = O.axial_measure(LAW[w], la, mu, F1, ax)
            except ValueError:
                continue
            if not (0.3 < z0 < 3 and 0.3 < z1 < 3) or abs(z1 - z0) < 1e-3:
                continue
            F0[ax][ax] = z0
            F1[ax][ax] = z1
            a0 = z0 if w == 2 else e0
        return (w, h, sm, smf, F0, F1, la, mu, a0)
    raise RuntimeError("no admissible case")


def oracle_tie(c, exe):
    rng = c.rng
    ns = c.pick(2, 14)
    cases = [make_case(rng, w, h, sm, smf) for w in range(3) for h in range(7) for sm in range(3) for smf in range(4) for _ in range(ns)]
    lines = []
    for (w, h, sm, smf, F0, F1, la, mu, a0) in cases:
        v0, v1 = O.mat_to_tensor(h, F0), O.mat_to_tensor(h, F1)
        ax = O.AXIAL.get(h)
        if ax is not None:
            # the axial slot of the gradients in plane stress: the Green-Lagrange and finite strain wrappers ADD the axial
            # deformation gradient to it (0 expected), the Hencky wrapper takes its logarithm and then replaces it (1: neutral)
            given = 1.0 if w == 1 else 0.0
            v0[ax] = given
            v1[ax] = given
        lines.append("%d %d %d %d %s %s %r %r %r" % (w, h, sm, smf, " ".join(repr(x) for x in v0), " ".join(repr(x) for x in v1), la, mu, a0))
    rc, out, err = c.run([exe], input="\n".join(lines) + "\n", timeout=600)
    res = out.splitlines()
    if rc != 0 or len(res) != len(cases):
        c.report("driver", "execution driver failed: " + err[-500:], {"stderr": err[-3000:]}, False)
        return
    seen = {}
    nbad = 0

    def fail(key, what, replay):
        nonlocal nbad
        nbad += 1
        if key not in seen:
            seen[key] = 1
            c.report(key, what, replay, True)
        else:
            seen[key] += 1

    for case, l in zip(cases, res):
        (w, h, sm, smf, F0, F1, la, mu, a0) = case
        t = l.split()
        rcw = int(t[1])
        n = O.tsize(h)
        ax = O.AXIAL.get(h)
        hn = O.HNAMES[h]
        inp = {"wrapper": WN[w], "hypothesis": hn, "K1_stress_measure": SMN[sm], "K2_tangent": TN[smf], "F0_true": F0, "F1_true": F1,
               "lambda": la, "mu": mu, "axial_isv_begin": a0}
        c.count(1, (w, h, sm, smf), True)
        if rcw != 1:
            fail("oracle:%s:%s:rc" % (WN[w], hn), "%s wrapper, %s, K[1]=%s K[2]=%s returns %d (%s) on F1=%r" % (WN[w], hn, SMN[sm], TN[smf], rcw, t[-1][:200], F1), inp)
            continue
        vals = [float(x) for x in t[2:2 + n + n * n + 1]]
        tf, K, isv = vals[:n], vals[n:n + n * n], vals[-1]
        ref = O.stress_vector(h, sm, LAW[w], la, mu, F1, ax)
        sc = max(abs(x) for x in ref)
        got = tf[:len(ref)]
        if not all(abs(a - b) <= TOL_STRESS * sc for a, b in zip(got, ref)):
            fail("oracle:%s:%s:stress:%s" % (WN[w], hn, SMN[sm]),
                 "%s wrapper, %s: %s stress returned %r, the %s closed form with the true end-of-step F gives %r (F1 = %r, lambda = %r, mu = %r)"
                 % (WN[w], hn, SMN[sm], got, "Hencky" if w == 1 else "Saint-Venant Kirchhoff", ref, F1, la, mu), dict(inp, returned=got, expected=ref))
        if ax is not None:
            # the axial state variable exported by the behaviour is the one of the oracle (sanity of the mock, not of the wrapper)
            e1, z1 = O.axial_measure(LAW[w], la, mu, F1, ax)
            want = z1 if w == 2 else e1
            if abs(isv - want) > 1e-9 * max(1.0, abs(want)):
                fail("oracle:%s:%s:axial" % (WN[w], hn), "%s wrapper, %s: axial state variable %r, oracle %r" % (WN[w], hn, isv, want), inp)
        if w == 2:
            # the finite strain wrapper must hand the operator of the behaviour over untouched
            if not all(K[i] == 1000 + i for i in range(n * n)):
                fail("oracle:%s:%s:operator" % (WN[w], hn), "finite_strain wrapper, %s, K[1]=%s K[2]=%s: the tangent operator written by the behaviour "
                     "was altered: %r" % (hn, SMN[sm], TN[smf], K[:n * n]), dict(inp, returned=K[:n * n]))
            continue
        rows, cols = O.tangent_shape(h, smf)
        refK = O.tangent(h, smf, LAW[w], la, mu, F0, F1, ax)
        gotK = [[K[i * cols + j] for j in range(cols)] for i in range(rows)]
        sck = max(abs(x) for r in refK for x in r)
        worst = max((abs(gotK[i][j] - refK[i][j]), i, j) if gotK[i][j] == gotK[i][j] else (float("inf"), i, j) for i in range(rows) for j in range(cols))
        if not worst[0] <= TOL_K * sck:
            i, j = worst[1], worst[2]
            fail("oracle:%s:%s:%s" % (WN[w], hn, TN[smf]),
                 "%s wrapper, %s, K[1]=%s: %s entry (%d,%d) = %r, central finite difference of the closed-form stress gives %r (scale %.3g; F0 = %r, "
                 "F1 = %r, lambda = %r, mu = %r)" % (WN[w], hn, SMN[sm], TN[smf], i, j, gotK[i][j], refK[i][j], sck, F0, F1, la, mu),
                 dict(inp, returned=gotK, expected=refK))
    if nbad:
        c.notes.append("oracle tie: %d of %d wrapper calls disagree with the closed forms / finite differences (%s)" % (nbad, len(cases), dict(seen)))
    c.coverage["oracle_cases"] = len(cases)
    c.sample({"oracle_case": {"wrapper": WN[cases[-1][0]], "hypothesis": O.HNAMES[cases[-1][1]], "F1": cases[-1][5]}})


def main(c):
    exe = c.cxx("trace", ["trace.cxx"], SUPPORT)
    drv = c.cxx("drive", ["drive.cxx"], SUPPORT)
    gen = os.path.join(c.work, "coq", "C55_gen.v")
    os.makedirs(os.path.dirname(gen), exist_ok=True)
    rc, out, err = c.run([exe, "gen", gen, str(c.seed), str(c.pick(4, 40))])
    if rc != 0 or "END agree=" not in out:
        c.report("trace", "tracer failed on /repo's finite strain helpers / wrappers: " + err[-500:], {"stderr": err[-3000:]}, False)
        return
    n = 0
    for l in out.splitlines():
        if not l.startswith("AGREE"):
            continue
        n += 1
        t = l.split()
        c.count(1, t[1] + ":" + t[-1], True)
        if n % 60 == 1:
            c.sample({"agreement": l[:400]})
        if l.startswith("AGREE-FAIL"):
            # concrete input: wrapper, stress measure, operator, F0, F1, moduli
            c.report("agree:" + t[1], "the real wrapper (double) and the traced helper sequence disagree (%s): %s" % (t[1], l[:900]),
                     {"line": l, "how": "props/C55/trace.cxx gen <file> %d" % c.seed}, True)
    c.coverage["traces_validated_against_impl"] = n
    c.trusted("engine S tracer (cxx/sym/sym.hxx), g++ template instantiation of the helpers with Sym",
              "props/C55/trace.cxx: the sequence of helper calls is transcribed from the wrapper headers; checked by agreement with the real "
              "wrappers (double, relative 1e-10) on seeded F0, F1, lambda, mu for every K[1] x K[2]: 1D, 1D plane stress, 2D, 2D plane stress, 3D",
              "behaviour classes of props/C55/mock.hxx (stand for generated behaviours: Hooke with an axial-strain state variable in plane stress, "
              "Saint-Venant Kirchhoff finite strain behaviour with an axial-deformation-gradient state variable)",
              "props/C55/oracle.py (closed forms and finite differences in floating point, tolerances 1e-8 / 2e-6 relative)")
    oracle_tie(c, drv)

    # ---- Coq: C55Proofs -> C55ProofsPS alongside C55Proofs3D, then the two property files alongside (at most 2 coqc at a time)
    results = []

    def stage(files):
        r = c.coq(files, timeout=900)
        results.append(r)
        return r.ok

    with3d = not c.quick()  # the two 3D lemmas cost about as much as everything else: thorough tier only
    if stage([gen, "C55Spec.v"]):
        oks = [True]
        t3 = None
        if with3d:
            t3 = threading.Thread(target=lambda: oks.__setitem__(0, stage(["C55Proofs3D.v", "Properties_C55_3D.v"])))
            t3.start()
        if stage(["C55Proofs.v"]):
            tp = threading.Thread(target=lambda: stage(["Properties_C55.v"]))
            tp.start()
            if stage(["C55ProofsPS.v"]):
                stage(["Properties_C55_PS.v"])
            tp.join()
        if t3 is not None:
            t3.join()
    c.coverage["checker_cmd"] = ("coqc -Q coq/lib VLib -R <scratch> C55 <files: C55_gen.v C55Spec.v C55Proofs.v C55ProofsPS.v Properties_C55.v "
                                 "Properties_C55_PS.v%s> (Coq 8.16.1, full .vo compilation)" % (" C55Proofs3D.v Properties_C55_3D.v" if with3d else ""))
    failed = [r for r in results if not r.ok]
    if failed:
        reached = {f[0] for r in results for f in r.files}
        for pf in ("Properties_C55.v", "Properties_C55_PS.v") + (("Properties_C55_3D.v",) if with3d else ()):
            if pf not in reached:  # its theorems are undischarged obligations all the same
                txt = open(os.path.join(c.dir, "coq", pf)).read()
                c.coverage["obligations"] += len(re.findall(r"^Theorem ", txt, flags=re.M))
        if c.violations and any(v[3] for v in c.violations):
            c.notes.append("proof obligations failed: %s; concrete failing inputs reported above" % [f[:3] for r in failed for f in r.failed])
        else:
            for r in failed:
                c.coq_failures(r)
    c.coverage["rule"] = ("(1) seeded deformation gradients (stretches 0.4..1.6 in 1D, perturbations of the identity up to 0.25 in 2D/3D), moduli x traced "
                          "pipeline {Green-Lagrange 1D / 1D plane stress / 2D / 2D plane stress / 3D, Hencky 1D} x K[1] in {0,1,2} x K[2] in {0,1,2,3}: real "
                          "wrapper = traced expression; (2) seeded F0, F1 = rotation x (stretch 0.6..1.4 + shear), moduli x wrapper {Green-Lagrange, Hencky, "
                          "standard finite strain} x 7 hypotheses x K[1] x K[2]: returned stress = closed form with the true end-of-step F (axial "
                          "stretch from the end-of-step axial strain in plane stress), returned operator = central finite difference of the closed form")


guarded_main("C55", main)

// C55: tracer (engine S) of the pre/post-processing that mfront::gb::green_lagrange_strain::integrate and
// mfront::gb::logarithmic_strain::integrate apply around a small strain behaviour, composed with Hooke's law.
//
// The wrappers are written for `double` (mfront::gb::real): they cannot be instantiated with a symbolic scalar.  What
// is traced is the sequence of /repo's templated helpers that the wrappers call (computeGreenLagrangeTensor,
// convertSecondPiolaKirchhoffStressToCauchyStress, convertCauchyStressToFirstPiolaKirchhoffStress,
// tfel::material::convert<...>, LogarithmicStrainHandler<N,T>), in the order and with the arguments of the header, once
// with T = symv::Sym (-> Coq definitions) and the agreement check compares, on seeded inputs, the traced expressions
// with what the REAL wrapper returns (double) when it is instantiated with a Hooke behaviour: a departure of the
// header from the traced sequence (other helper, other arguments, other stress measure) shows up there.
//   trace gen <out.v>   : Coq definitions + AGREE lines
#include "symtfel.hxx"
#include <cstdio>
#include <cstring>
#include <fstream>
#include <iostream>
#include <random>
#include "TFEL/Math/tensor.hxx"
#include "TFEL/Math/stensor.hxx"
#include "TFEL/Math/st2tost2.hxx"
#include "TFEL/Math/t2tost2.hxx"
#include "TFEL/Math/t2tot2.hxx"
#include "mock.hxx"
#include "TFEL/Material/MechanicalBehaviour.hxx"
#include "TFEL/Material/MechanicalBehaviourTraits.hxx"
#include "TFEL/Material/FiniteStrainBehaviourTangentOperator.hxx"
#include "TFEL/Material/LogarithmicStrainHandler.hxx"
#include "MFront/GenericBehaviour/Integrate.hxx"
#include "MFront/GenericBehaviour/GreenLagrangeStrainIntegrate.hxx"
#include "MFront/GenericBehaviour/LogarithmicStrainIntegrate.hxx"

using namespace symv;
using namespace tfel::math;
using FSTO = tfel::material::FiniteStrainBehaviourTangentOperatorBase;
constexpr auto H1D = tfel::material::ModellingHypothesis::AXISYMMETRICALGENERALISEDPLANESTRAIN;
constexpr auto H3D = tfel::material::ModellingHypothesis::TRIDIMENSIONAL;
constexpr auto H1DPS = tfel::material::ModellingHypothesis::AXISYMMETRICALGENERALISEDPLANESTRESS;
constexpr auto H2D = tfel::material::ModellingHypothesis::GENERALISEDPLANESTRAIN;
constexpr auto H2DPS = tfel::material::ModellingHypothesis::PLANESTRESS;

// ------------------------------------------------------------------ behaviour classes for the real wrappers (double): mock.hxx
using c55::Hooke;

// ------------------------------------------------------------------ the traced sequence (generic in the scalar)
// outputs: stress in the requested measure (TensorSize values, symmetric measures padded with 0) then the operator
// (TensorSize x TensorSize values, padded with 0)
// AX >= 0: plane stress hypothesis whose axial component is AX (PLANESTRESS: 2, AXISYMMETRICALGENERALISEDPLANESTRESS: 1); then
// a0 is the axial strain at the beginning of the step (internal state variable) and, as in the header, the strain is computed from
// the gradients as given, the axial deformation gradients sqrt(1 + 2 e_axial) are ADDED to the axial components of F0 (before the
// behaviour is called, from a0) and of F1 (after it, from the axial strain the behaviour exports)
template <unsigned short N, typename T, int AX = -1>
std::vector<T> green_lagrange_pipeline(const tensor<N, T>& F0g, const tensor<N, T>& F1g, const T& lambda, const T& mu, const int sm,
                                       const int smf, const T& a0 = T(0)) {
  using tfel::material::convert;
  constexpr int TS = N == 1 ? 3 : (N == 2 ? 5 : 9);
  constexpr int SS = N == 1 ? 3 : (N == 2 ? 4 : 6);
  tensor<N, T> F0 = F0g, F1 = F1g;
  const stensor<N, T> e1 = computeGreenLagrangeTensor(F1);
  using std::sqrt;
  using symv::sqrt;
  if constexpr (AX >= 0) F0[AX] += sqrt(1 + 2 * a0);
  // the behaviour: Hooke's law on the strain it is given (plane stress: mock.hxx, Hooke<H>::integrate / stiffness)
  stensor<N, T> S1;
  st2tost2<N, T> K;
  if constexpr (AX >= 0) {
    T tr = T(0);
    for (int i = 0; i != 3; ++i) {
      if (i != AX) tr = tr + e1[i];
    }
    const T eaxial = -lambda * tr / (lambda + 2 * mu);
    stensor<N, T> e = e1;
    e[AX] = eaxial;
    S1 = lambda * trace(e) * stensor<N, T>::Id() + 2 * mu * e;
    S1[AX] = T(0);
    const T ls = 2 * lambda * mu / (lambda + 2 * mu);
    for (auto& x : K) x = T(0);
    for (int i = 0; i != 3; ++i) {
      for (int j = 0; j != 3; ++j) {
        if (i != AX && j != AX) K(i, j) = (i == j) ? T(ls + 2 * mu) : ls;
      }
    }
    for (int i = 3; i != SS; ++i) K(i, i) = 2 * mu;
    F1[AX] += sqrt(1 + 2 * eaxial);
  } else {
    S1 = lambda * trace(e1) * stensor<N, T>::Id() + 2 * mu * e1;
    K = lambda * st2tost2<N, T>::IxI() + 2 * mu * st2tost2<N, T>::Id();
  }
  // post-processing
  const stensor<N, T> s1 = convertSecondPiolaKirchhoffStressToCauchyStress(S1, F1);
  std::vector<T> out;
  if (sm == 0) {
    for (int i = 0; i != SS; ++i) out.push_back(s1[i]);
    for (int i = SS; i != TS; ++i) out.push_back(T(0));
  } else if (sm == 1) {
    for (int i = 0; i != SS; ++i) out.push_back(S1[i]);
    for (int i = SS; i != TS; ++i) out.push_back(T(0));
  } else {
    const tensor<N, T> pk1 = convertCauchyStressToFirstPiolaKirchhoffStress(s1, F1);
    for (int i = 0; i != TS; ++i) out.push_back(pk1[i]);
  }
  std::vector<T> k(TS * TS, T(0));
  if (smf == 0) {
    const t2tost2<N, T> r = convert<FSTO::DSIG_DF, FSTO::DS_DEGL>(K, F0, F1, s1);
    for (int i = 0; i != SS * TS; ++i) k[i] = *(r.begin() + i);
  } else if (smf == 1) {
    for (int i = 0; i != SS * SS; ++i) k[i] = *(K.begin() + i);
  } else if (smf == 2) {
    const t2tot2<N, T> r = convert<FSTO::DPK1_DF, FSTO::DS_DEGL>(K, F0, F1, s1);
    for (int i = 0; i != TS * TS; ++i) k[i] = *(r.begin() + i);
  } else {
    const auto K1 = convert<FSTO::SPATIAL_MODULI, FSTO::DS_DEGL>(K, F0, F1, s1);
    const auto K2 = convert<FSTO::DTAU_DF, FSTO::SPATIAL_MODULI>(K1, F0, F1, s1);
    const t2tost2<N, T> r = convert<FSTO::DTAU_DDF, FSTO::DTAU_DF>(K2, F0, F1, s1);
    for (int i = 0; i != SS * TS; ++i) k[i] = *(r.begin() + i);
  }
  out.insert(out.end(), k.begin(), k.end());
  return out;
}

#ifndef C55_NO_HENCKY
// Hencky strain, 1D: stress only and the operators obtained from the handler
template <typename T>
std::vector<T> hencky_pipeline_1d(const tensor<1u, T>& F0, const tensor<1u, T>& F1, const T& lambda, const T& mu, const int sm,
                                  const int smf) {
  using tfel::material::convert;
  using LSH = tfel::material::LogarithmicStrainHandler<1u, T>;
  const auto setting = (smf == 0) ? LSH::EULERIAN : LSH::LAGRANGIAN;
  LSH lgh1(setting, F1);
  const stensor<1u, T> e1 = lgh1.getHenckyLogarithmicStrain();
  const stensor<1u, T> T1 = lambda * trace(e1) * stensor<1u, T>::Id() + 2 * mu * e1;
  const st2tost2<1u, T> K = lambda * st2tost2<1u, T>::IxI() + 2 * mu * st2tost2<1u, T>::Id();
  const stensor<1u, T> s1 = lgh1.convertToCauchyStress(T1);
  std::vector<T> out;
  if (sm == 0) {
    for (int i = 0; i != 3; ++i) out.push_back(s1[i]);
  } else if (sm == 1) {
    const stensor<1u, T> S1 = convertCauchyStressToSecondPiolaKirchhoffStress(s1, F1);
    for (int i = 0; i != 3; ++i) out.push_back(S1[i]);
  } else {
    const tensor<1u, T> pk1 = convertCauchyStressToFirstPiolaKirchhoffStress(s1, F1);
    for (int i = 0; i != 3; ++i) out.push_back(pk1[i]);
  }
  std::vector<T> k(9, T(0));
  if (smf == 0) {
    const auto Cs = lgh1.convertToSpatialTangentModuli(K, T1);
    const auto Dt = convert<FSTO::DTAU_DF, FSTO::SPATIAL_MODULI>(Cs, F0, F1, s1);
    const t2tost2<1u, T> r = convert<FSTO::DSIG_DF, FSTO::DTAU_DF>(Dt, F0, F1, s1);
    for (int i = 0; i != 9; ++i) k[i] = *(r.begin() + i);
  } else if (smf == 1) {
    const st2tost2<1u, T> r = lgh1.convertToMaterialTangentModuli(K, T1);
    for (int i = 0; i != 9; ++i) k[i] = *(r.begin() + i);
  } else if (smf == 2) {
    const auto Cse = lgh1.convertToMaterialTangentModuli(K, T1);
    const t2tot2<1u, T> r = convert<FSTO::DPK1_DF, FSTO::DS_DEGL>(Cse, F0, F1, s1);
    for (int i = 0; i != 9; ++i) k[i] = *(r.begin() + i);
  }
  out.insert(out.end(), k.begin(), k.end());
  return out;
}
#endif

// ------------------------------------------------------------------ the real wrapper (double)
template <tfel::material::ModellingHypothesis::Hypothesis H, bool hencky>
std::vector<double> real_wrapper(const std::vector<double>& F0, const std::vector<double>& F1, const double lambda, const double mu,
                                 const int sm, const int smf, int& rc, const double a0 = 0) {
  constexpr int TS = tfel::material::ModellingHypothesisToTensorSize<H>::value;
  double K[96], tf0[9] = {0}, tf1[9] = {0}, mp[2] = {lambda, mu}, isv0[1] = {a0}, isv1[1] = {a0}, esv[1] = {293.}, rho = 1., rdt = 1., sos = 0.;
  char err[512] = {0};
  for (auto& k : K) k = 0;
  K[0] = 4;
  K[1] = sm;
  K[2] = smf;
  mfront_gb_BehaviourData d;
  std::memset(&d, 0, sizeof d);
  d.error_message = err;
  d.dt = 1;
  d.K = K;
  d.rdt = &rdt;
  d.speed_of_sound = &sos;
  d.s0.gradients = F0.data();
  d.s1.gradients = F1.data();
  d.s0.thermodynamic_forces = tf0;
  d.s1.thermodynamic_forces = tf1;
  d.s0.mass_density = d.s1.mass_density = &rho;
  d.s0.material_properties = d.s1.material_properties = mp;
  d.s0.internal_state_variables = isv0;
  d.s1.internal_state_variables = isv1;
  d.s0.external_state_variables = d.s1.external_state_variables = esv;
  if constexpr (hencky) {
    rc = mfront::gb::logarithmic_strain::integrate<Hooke<H>>(d, tfel::material::None);
  } else {
    rc = mfront::gb::green_lagrange_strain::integrate<Hooke<H>>(d, tfel::material::None);
  }
  std::vector<double> out(tf1, tf1 + TS);
  out.insert(out.end(), K, K + TS * TS);
  return out;
}

static int nagree = 0, nbad = 0;
static void agree(const std::string& name, const std::vector<Sym>& sym, const Env& env, const std::vector<double>& real, const int rc) {
  double scale = 0;
  for (auto v : real) scale = std::max(scale, std::abs(v));
  bool ok = rc == 1 && sym.size() == real.size();
  double worst = 0;
  for (size_t i = 0; ok && i != sym.size(); ++i) {
    const double e = std::abs(double(eval(sym[i], env)) - real[i]);
    worst = std::max(worst, e);
    if (!(e <= 1e-10 * scale + 1e-300)) ok = false;
  }
  ++nagree;
  if (!ok) ++nbad;
  std::printf("%s %s rc=%d worst=%.3e scale=%.3e", ok ? "AGREE" : "AGREE-FAIL", name.c_str(), rc, worst, scale);
  for (auto& kv : env) std::printf(" %s=%.17g", kv.first.c_str(), double(kv.second));
  std::printf("\n");
}

int main(const int argc, const char* const* argv) {
  if (argc < 3) return 2;
  const unsigned seed = argc > 3 ? std::stoul(argv[3]) : 20260922u;
  const int nsamples = argc > 4 ? std::stoi(argv[4]) : 6;
  Trace tr("C55");
  std::mt19937_64 rng(seed);
  std::uniform_real_distribution<double> U(-1., 1.);
  static const char* smn[3] = {"cauchy", "pk2", "pk1"};
  static const char* tn[4] = {"dsig_df", "ds_degl", "dpk1_df", "dtau_ddf"};
  // ------------------------------ 1D
  {
    auto f = vars("f", 3);
    auto g = vars("g", 3);
    Sym la = var("la"), mu = var("mu");
    std::vector<Sym> ps{f[0], f[1], f[2], g[0], g[1], g[2], la, mu};
    tensor<1u, Sym> F0, F1;
    for (int i = 0; i != 3; ++i) {
      F0[i] = g[i];
      F1[i] = f[i];
    }
    for (int sm = 0; sm != 3; ++sm) {
      for (int smf = 0; smf != 4; ++smf) {
        const auto out = green_lagrange_pipeline<1u, Sym>(F0, F1, la, mu, sm, smf);
        if (smf == 0) tr.def(std::string("gl1_stress_") + smn[sm], ps, std::vector<Sym>(out.begin(), out.begin() + 3));
        if (sm == 0) tr.def(std::string("gl1_") + tn[smf], ps, std::vector<Sym>(out.begin() + 3, out.end()));
        for (int k = 0; k != nsamples; ++k) {
          std::vector<double> f0{1 + 0.4 * U(rng), 1 + 0.4 * U(rng), 1 + 0.4 * U(rng)}, f1{1 + 0.6 * U(rng), 1 + 0.6 * U(rng), 1 + 0.6 * U(rng)};
          const double l = 100e9 * (1.2 + U(rng)), m = 80e9 * (1.2 + U(rng));
          Env env{{"f0", f1[0]}, {"f1", f1[1]}, {"f2", f1[2]}, {"g0", f0[0]}, {"g1", f0[1]}, {"g2", f0[2]}, {"la", l}, {"mu", m}};
          int rc = 0;
          const auto real = real_wrapper<H1D, false>(f0, f1, l, m, sm, smf, rc);
          agree(std::string("gl1:") + smn[sm] + ":" + tn[smf], out, env, real, rc);
        }
      }
    }
#ifndef C55_NO_HENCKY
    for (int sm = 0; sm != 3; ++sm) {
      for (int smf = 0; smf != 3; ++smf) {
        const auto out = hencky_pipeline_1d<Sym>(F0, F1, la, mu, sm, smf);
        if (smf == 0) tr.def(std::string("log1_stress_") + smn[sm], ps, std::vector<Sym>(out.begin(), out.begin() + 3));
        if (sm == 0) tr.def(std::string("log1_") + tn[smf], ps, std::vector<Sym>(out.begin() + 3, out.end()));
        for (int k = 0; k != nsamples; ++k) {
          std::vector<double> f0{1 + 0.4 * U(rng), 1 + 0.4 * U(rng), 1 + 0.4 * U(rng)}, f1{1 + 0.6 * U(rng), 1 + 0.6 * U(rng), 1 + 0.6 * U(rng)};
          const double l = 100e9 * (1.2 + U(rng)), m = 80e9 * (1.2 + U(rng));
          Env env{{"f0", f1[0]}, {"f1", f1[1]}, {"f2", f1[2]}, {"g0", f0[0]}, {"g1", f0[1]}, {"g2", f0[2]}, {"la", l}, {"mu", m}};
          int rc = 0;
          const auto real = real_wrapper<H1D, true>(f0, f1, l, m, sm, smf, rc);
          agree(std::string("log1:") + smn[sm] + ":" + tn[smf], out, env, real, rc);
        }
      }
    }
#endif
  }
  // ------------------------------ 1D plane stress (AXISYMMETRICALGENERALISEDPLANESTRESS): axial component 1, axial strain = isv 0
  {
    auto f = vars("f", 3);
    auto g = vars("g", 3);
    Sym la = var("la"), mu = var("mu"), a0 = var("a0");
    std::vector<Sym> ps{f[0], f[1], f[2], g[0], g[1], g[2], a0, la, mu};
    tensor<1u, Sym> F0, F1;
    for (int i = 0; i != 3; ++i) {
      F0[i] = g[i];
      F1[i] = f[i];
    }
    for (int sm = 0; sm != 3; ++sm) {
      for (int smf = 0; smf != 4; ++smf) {
        const auto out = green_lagrange_pipeline<1u, Sym, 1>(F0, F1, la, mu, sm, smf, a0);
        if (smf == 0) tr.def(std::string("gl1ps_stress_") + smn[sm], ps, std::vector<Sym>(out.begin(), out.begin() + 3));
        if (sm == 0) tr.def(std::string("gl1ps_") + tn[smf], ps, std::vector<Sym>(out.begin() + 3, out.end()));
        for (int k = 0; k != nsamples; ++k) {
          // the axial slot of the gradients: 0 (what a caller is expected to give), or anything (the header adds to it)
          const double z0 = (k % 2) ? 0.1 * U(rng) : 0., z1 = (k % 2) ? 0.1 * U(rng) : 0.;
          std::vector<double> f0{1 + 0.3 * U(rng), z0, 1 + 0.3 * U(rng)}, f1{1 + 0.3 * U(rng), z1, 1 + 0.3 * U(rng)};
          const double l = 100e9 * (1.2 + U(rng)), m = 80e9 * (1.2 + U(rng)), ax0 = 0.15 * U(rng);
          Env env{{"f0", f1[0]}, {"f1", f1[1]}, {"f2", f1[2]}, {"g0", f0[0]}, {"g1", f0[1]}, {"g2", f0[2]}, {"a0", ax0}, {"la", l}, {"mu", m}};
          int rc = 0;
          const auto real = real_wrapper<H1DPS, false>(f0, f1, l, m, sm, smf, rc, ax0);
          agree(std::string("gl1ps:") + smn[sm] + ":" + tn[smf], out, env, real, rc);
        }
      }
    }
  }
  // ------------------------------ 2D: general in-plane F (xx yy zz xy yx), generalised plane strain and plane stress
  {
    auto f = vars("f", 5);
    auto g = vars("g", 5);
    Sym la = var("la"), mu = var("mu"), a0 = var("a0");
    std::vector<Sym> ps(f.begin(), f.end());
    ps.push_back(la);
    ps.push_back(mu);
    tensor<2u, Sym> F0, F1;
    for (int i = 0; i != 5; ++i) {
      F0[i] = g[i];
      F1[i] = f[i];
    }
    for (int pstress = 0; pstress != 2; ++pstress) {
      const std::string pre = pstress ? "gl2ps" : "gl2";
      for (int sm = 0; sm != 3; ++sm) {
        // the stresses do not depend on F0 nor on a0
        const auto out = pstress ? green_lagrange_pipeline<2u, Sym, 2>(F0, F1, la, mu, sm, 1, a0) : green_lagrange_pipeline<2u, Sym>(F0, F1, la, mu, sm, 1);
        tr.def(pre + "_stress_" + smn[sm], ps, std::vector<Sym>(out.begin(), out.begin() + 5));
        for (int smf = 0; smf != 4; ++smf) {
          const auto outk = smf == 1 ? out
                                     : (pstress ? green_lagrange_pipeline<2u, Sym, 2>(F0, F1, la, mu, sm, smf, a0)
                                                : green_lagrange_pipeline<2u, Sym>(F0, F1, la, mu, sm, smf));
          for (int k = 0; k != nsamples; ++k) {
            std::vector<double> f0(5), f1(5);
            for (int i = 0; i != 5; ++i) {
              f0[i] = (i < 3 ? 1. : 0.) + 0.15 * U(rng);
              f1[i] = (i < 3 ? 1. : 0.) + 0.25 * U(rng);
            }
            if (pstress) {
              f0[2] = (k % 2) ? 0.1 * U(rng) : 0.;
              f1[2] = (k % 2) ? 0.1 * U(rng) : 0.;
            }
            const double l = 100e9 * (1.2 + U(rng)), m = 80e9 * (1.2 + U(rng)), ax0 = pstress ? 0.15 * U(rng) : 0.;
            Env env{{"la", l}, {"mu", m}, {"a0", ax0}};
            for (int i = 0; i != 5; ++i) {
              env["f" + std::to_string(i)] = f1[i];
              env["g" + std::to_string(i)] = f0[i];
            }
            int rc = 0;
            const auto real = pstress ? real_wrapper<H2DPS, false>(f0, f1, l, m, sm, smf, rc, ax0) : real_wrapper<H2D, false>(f0, f1, l, m, sm, smf, rc);
            agree(pre + ":" + smn[sm] + ":" + tn[smf], outk, env, real, rc);
          }
        }
      }
    }
  }
  // ------------------------------ 3D: stresses (every component), general F
  {
    auto f = vars("f", 9);
    auto g = vars("g", 9);
    Sym la = var("la"), mu = var("mu");
    std::vector<Sym> ps(f.begin(), f.end());
    ps.push_back(la);
    ps.push_back(mu);
    tensor<3u, Sym> F0, F1;
    for (int i = 0; i != 9; ++i) {
      F0[i] = g[i];
      F1[i] = f[i];
    }
    for (int sm = 0; sm != 3; ++sm) {
      const auto out = green_lagrange_pipeline<3u, Sym>(F0, F1, la, mu, sm, 1);
      tr.def(std::string("gl3_stress_") + smn[sm], ps, std::vector<Sym>(out.begin(), out.begin() + 9));
      for (int smf = 0; smf != 4; ++smf) {
        const auto outk = smf == 1 ? out : green_lagrange_pipeline<3u, Sym>(F0, F1, la, mu, sm, smf);
        for (int k = 0; k != nsamples; ++k) {
          std::vector<double> f0(9), f1(9);
          for (int i = 0; i != 9; ++i) {
            f0[i] = (i < 3 ? 1. : 0.) + 0.15 * U(rng);
            f1[i] = (i < 3 ? 1. : 0.) + 0.25 * U(rng);
          }
          const double l = 100e9 * (1.2 + U(rng)), m = 80e9 * (1.2 + U(rng));
          Env env{{"la", l}, {"mu", m}};
          for (int i = 0; i != 9; ++i) {
            env["f" + std::to_string(i)] = f1[i];
            env["g" + std::to_string(i)] = f0[i];
          }
          int rc = 0;
          const auto real = real_wrapper<H3D, false>(f0, f1, l, m, sm, smf, rc);
          agree(std::string("gl3:") + smn[sm] + ":" + tn[smf], outk, env, real, rc);
        }
      }
    }
  }
  std::ofstream o(argv[2]);
  o << tr.out.str();
  std::printf("END agree=%d bad=%d defs=%d\n", nagree, nbad, tr.ndefs);
  return 0;
}

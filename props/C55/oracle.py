"""C55 -- independent oracle for the finite-strain wrappers (pure Python, no TFEL code).

Closed forms: a hyperelastic law gives the second Piola-Kirchhoff stress S as an isotropic function of C = F^T F
  * Saint-Venant Kirchhoff : S = la tr(E) I + 2 mu E,  E = (C - I)/2
  * Hencky                 : tau = la tr(ln V) I + 2 mu ln V, i.e. S = sum_i (la tr(l) + 2 mu l_i)/c_i n_i (x) n_i with C = sum c_i n_i (x) n_i,
                             l_i = ln(c_i)/2
and the requested stress measure is obtained from the TRUE deformation gradient F: tau = F S F^T, sigma = tau / det F, P = F S.
Plane stress hypotheses (axial direction a): S_aa = 0 defines the axial strain (E_a = -la/(la+2mu) tr_inplane E, resp. l_a = -la/(la+2mu)
tr_inplane l), hence the true axial stretch F_aa = sqrt(1 + 2 E_a), resp. exp(l_a); the in-plane law is the same with
la* = 2 la mu/(la+2mu) and the in-plane trace.
Tangent operators are obtained by central finite differences of these functions (in plane stress the axial stretch is an independent
argument of the push-forward, the material response depending on the in-plane part of C only: partial derivatives at fixed axial stretch).
TFEL storage: tensor (xx yy zz xy yx xz zx yz zy), symmetric tensor (xx yy zz sqrt2 xy sqrt2 xz sqrt2 yz); 1D (rr zz tt)."""
import math

SQ2 = math.sqrt(2.0)
HNAMES = ["AxisymmetricalGeneralisedPlaneStrain", "AxisymmetricalGeneralisedPlaneStress", "Axisymmetrical", "PlaneStress", "PlaneStrain",
          "GeneralisedPlaneStrain", "Tridimensional"]
DIM = [1, 1, 2, 2, 2, 2, 3]
TS = {1: 3, 2: 5, 3: 9}
SS = {1: 3, 2: 4, 3: 6}
TPOS = [(0, 0), (1, 1), (2, 2), (0, 1), (1, 0), (0, 2), (2, 0), (1, 2), (2, 1)]
SPOS = [(0, 0), (1, 1), (2, 2), (0, 1), (0, 2), (1, 2)]
AXIAL = {1: 1, 3: 2}  # plane stress hypotheses: index of the axial direction


def tsize(h):
    return TS[DIM[h]]


def ssize(h):
    return SS[DIM[h]]


def eye():
    return [[1.0, 0.0, 0.0], [0.0, 1.0, 0.0], [0.0, 0.0, 1.0]]


def mul(A, B):
    return [[sum(A[i][k] * B[k][j] for k in range(3)) for j in range(3)] for i in range(3)]


def tr(A):
    return [[A[j][i] for j in range(3)] for i in range(3)]


def det(A):
    return (A[0][0] * (A[1][1] * A[2][2] - A[1][2] * A[2][1]) - A[0][1] * (A[1][0] * A[2][2] - A[1][2] * A[2][0])
            + A[0][2] * (A[1][0] * A[2][1] - A[1][1] * A[2][0]))


def inv(A):
    d = det(A)
    c = [[0.0] * 3 for _ in range(3)]
    for i in range(3):
        for j in range(3):
            i1, i2 = (i + 1) % 3, (i + 2) % 3
            j1, j2 = (j + 1) % 3, (j + 2) % 3
            c[j][i] = (A[i1][j1] * A[i2][j2] - A[i1][j2] * A[i2][j1]) / d
    return c


def tensor_to_mat(h, v):
    M = [[0.0] * 3 for _ in range(3)]
    for k in range(tsize(h)):
        i, j = TPOS[k]
        M[i][j] = v[k]
    return M


def mat_to_tensor(h, M):
    return [M[TPOS[k][0]][TPOS[k][1]] for k in range(tsize(h))]


def mat_to_stensor(h, M):
    return [(M[SPOS[k][0]][SPOS[k][1]] + M[SPOS[k][1]][SPOS[k][0]]) / 2 * (SQ2 if k > 2 else 1.0) for k in range(ssize(h))]


def stensor_to_mat(h, v):
    M = [[0.0] * 3 for _ in range(3)]
    for k in range(ssize(h)):
        i, j = SPOS[k]
        x = v[k] / (SQ2 if k > 2 else 1.0)
        M[i][j] = x
        M[j][i] = x
    return M


def jacobi(A):
    """eigenvalues and orthonormal eigenvectors (columns of V) of a symmetric 3x3 matrix"""
    a = [r[:] for r in A]
    V = eye()
    for _ in range(60):
        off = abs(a[0][1]) + abs(a[0][2]) + abs(a[1][2])
        if off < 1e-18 * (abs(a[0][0]) + abs(a[1][1]) + abs(a[2][2])):
            break
        for (p, q) in ((0, 1), (0, 2), (1, 2)):
            if a[p][q] == 0.0:
                continue
            th = (a[q][q] - a[p][p]) / (2 * a[p][q])
            t = (1.0 if th >= 0 else -1.0) / (abs(th) + math.sqrt(th * th + 1))
            c = 1 / math.sqrt(t * t + 1)
            s = t * c
            for k in range(3):
                akp, akq = a[k][p], a[k][q]
                a[k][p], a[k][q] = c * akp - s * akq, s * akp + c * akq
            for k in range(3):
                apk, aqk = a[p][k], a[q][k]
                a[p][k], a[q][k] = c * apk - s * aqk, s * apk + c * aqk
            for k in range(3):
                vkp, vkq = V[k][p], V[k][q]
                V[k][p], V[k][q] = c * vkp - s * vkq, s * vkp + c * vkq
    return [a[0][0], a[1][1], a[2][2]], V


def pk2(law, la, mu, C, axial=None):
    """S(C); axial: index of the plane stress direction (the law then only looks at the in-plane part of C)"""
    if axial is not None:
        C = [r[:] for r in C]
        for k in range(3):
            C[axial][k] = C[k][axial] = 0.0
        C[axial][axial] = 1.0
        lam = 2 * la * mu / (la + 2 * mu)
    else:
        lam = la
    if law == "svk":
        E = [[(C[i][j] - (1.0 if i == j else 0.0)) / 2 for j in range(3)] for i in range(3)]
        t = E[0][0] + E[1][1] + E[2][2]
        S = [[lam * t * (1.0 if i == j else 0.0) + 2 * mu * E[i][j] for j in range(3)] for i in range(3)]
    else:
        c, V = jacobi(C)
        l = [math.log(x) / 2 for x in c]
        t = l[0] + l[1] + l[2]
        s = [(lam * t + 2 * mu * l[i]) / c[i] for i in range(3)]
        S = [[sum(s[k] * V[i][k] * V[j][k] for k in range(3)) for j in range(3)] for i in range(3)]
    if axial is not None:
        for k in range(3):
            S[axial][k] = S[k][axial] = 0.0
    return S


def axial_measure(law, la, mu, Fip, axial):
    """plane stress: the axial strain measure (Green-Lagrange resp. Hencky) that makes S_axial vanish, and the axial stretch.
    Fip: deformation gradient whose axial entry is irrelevant"""
    F = [r[:] for r in Fip]
    for k in range(3):
        F[axial][k] = F[k][axial] = 0.0
    F[axial][axial] = 1.0
    C = mul(tr(F), F)
    if law == "svk":
        t = sum((C[i][i] - 1) / 2 for i in range(3) if i != axial)
        e = -la * t / (la + 2 * mu)
        return e, math.sqrt(1 + 2 * e)
    c, _ = jacobi(C)
    t = sum(math.log(x) / 2 for x in c)  # the axial eigenvalue is 1
    e = -la * t / (la + 2 * mu)
    return e, math.exp(e)


def stresses(law, la, mu, F, axial=None):
    """(sigma, S, P, tau) as 3x3 matrices for the true deformation gradient F"""
    S = pk2(law, la, mu, mul(tr(F), F), axial)
    P = mul(F, S)
    tau = mul(P, tr(F))
    J = det(F)
    sig = [[x / J for x in r] for r in tau]
    return sig, S, P, tau


def stress_vector(h, sm, law, la, mu, F, axial=None):
    sig, S, P, tau = stresses(law, la, mu, F, axial)
    if sm == 0:
        return mat_to_stensor(h, sig)
    if sm == 1:
        return mat_to_stensor(h, S)
    return mat_to_tensor(h, P)


def fd(f, x, hstep):
    """jacobian of f at x by central differences, rows = outputs"""
    cols = []
    for k in range(len(x)):
        xp = x[:]
        xm = x[:]
        xp[k] += hstep
        xm[k] -= hstep
        fp, fm = f(xp), f(xm)
        cols.append([(a - b) / (2 * hstep) for a, b in zip(fp, fm)])
    return [[cols[k][i] for k in range(len(x))] for i in range(len(cols[0]))]


def tangent(h, smf, law, la, mu, F0, F1, axial=None, hstep=1e-6):
    """smf: 0 dsigma/dF, 1 dS/dE_GL, 2 dP/dF, 3 dtau/dDeltaF (DeltaF = F1 F0^-1); F0, F1 true 3x3 deformation gradients"""
    if smf == 0:
        return fd(lambda v: mat_to_stensor(h, stresses(law, la, mu, tensor_to_mat(h, v), axial)[0]), mat_to_tensor(h, F1), hstep)
    if smf == 2:
        return fd(lambda v: mat_to_tensor(h, stresses(law, la, mu, tensor_to_mat(h, v), axial)[2]), mat_to_tensor(h, F1), hstep)
    if smf == 3:
        dF = mul(F1, inv(F0))
        return fd(lambda v: mat_to_stensor(h, stresses(law, la, mu, mul(tensor_to_mat(h, v), F0), axial)[3]), mat_to_tensor(h, dF), hstep)
    C = mul(tr(F1), F1)
    E = [[(C[i][j] - (1.0 if i == j else 0.0)) / 2 for j in range(3)] for i in range(3)]

    def f(v):
        Em = stensor_to_mat(h, v)
        Cm = [[2 * Em[i][j] + (1.0 if i == j else 0.0) for j in range(3)] for i in range(3)]
        return mat_to_stensor(h, pk2(law, la, mu, Cm, axial))
    return fd(f, mat_to_stensor(h, E), hstep)


def tangent_shape(h, smf):
    n, m = ssize(h), tsize(h)
    return {0: (n, m), 1: (n, n), 2: (m, m), 3: (n, m)}[smf]

// C55: execution driver.  The three REAL wrappers of /repo
//   mfront::gb::green_lagrange_strain::integrate, mfront::gb::logarithmic_strain::integrate, mfront::gb::finite_strain::integrate
// are called through mfront_gb_BehaviourData for each of the seven modelling hypotheses with hand-written behaviour classes:
//   * Hooke<H>   small strain Hooke's law on the strain it is given (stands for a generated small strain elastic behaviour).
//                Plane stress hypotheses: the axial strain is the internal state variable 0 (GenericBehaviourTraits::axial_strain_offset),
//                computed from sigma_axial = 0, the tangent is the plane stress one (axial row and column zero);
//   * SVK<H>     finite strain behaviour returning the Cauchy stress of the Saint-Venant Kirchhoff law; plane stress hypotheses: the
//                axial deformation gradient is the internal state variable 0 (axial_deformation_gradient_offset).  The tangent it
//                returns is a recognisable pattern (the wrapper must hand it over untouched).
// No oracle here: the outputs are judged by props/C55/check.py (own closed forms, finite differences).
//   drive            : reads lines `w h sm smf  F0[TS] F1[TS]  lambda mu  isv0` (w: 0 GL, 1 Hencky, 2 finite strain; h: hypothesis
//                      0..6 in the order of ModellingHypothesis::Hypothesis), prints `R rc  tf1[TS]  K[TS*TS]  isv1`
#include <cmath>
#include <cstdio>
#include <cstring>
#include <iostream>
#include <vector>
#include "mock.hxx"
#include "TFEL/Material/LogarithmicStrainHandler.hxx"
#include "MFront/GenericBehaviour/GreenLagrangeStrainIntegrate.hxx"
#include "MFront/GenericBehaviour/LogarithmicStrainIntegrate.hxx"
#include "MFront/GenericBehaviour/StandardFiniteStrainBehaviourIntegrate.hxx"

using namespace tfel::math;
using namespace c55;

template <MH::Hypothesis H>
void call(const int w, const int sm, const int smf, std::istream& in) {
  constexpr int TS = Layout<H>::TensorSize;
  std::vector<double> F0(TS), F1(TS);
  for (auto& x : F0) in >> x;
  for (auto& x : F1) in >> x;
  double lambda, mu, a0;
  in >> lambda >> mu >> a0;
  double K[96], tf0[9] = {0}, tf1[9] = {0}, mp[2] = {lambda, mu}, isv0[1] = {a0}, isv1[1] = {a0}, esv[1] = {293.}, rho = 1., rdt = 1., sos = 0.;
  char err[512] = {0};
  for (auto& k : K) k = std::nan("");
  K[0] = 4;
  K[1] = sm;
  K[2] = smf;
  for (auto& x : tf1) x = std::nan("");
  mfront_gb_BehaviourData d;
  std::memset(&d, 0, sizeof d);
  d.error_message = err;
  d.dt = 1;
  d.K = K;
  d.rdt = &rdt;
  d.speed_of_sound = &sos;
  d.s0.gradients = F0.data();
  d.s1.gradients = F1.data();
  d.s0.thermodynamic_forces = tf0;
  d.s1.thermodynamic_forces = tf1;
  d.s0.mass_density = d.s1.mass_density = &rho;
  d.s0.material_properties = d.s1.material_properties = mp;
  d.s0.internal_state_variables = isv0;
  d.s1.internal_state_variables = isv1;
  d.s0.external_state_variables = d.s1.external_state_variables = esv;
  int rc = -2;
  try {
    if (w == 0) rc = mfront::gb::green_lagrange_strain::integrate<Hooke<H>>(d, tfel::material::None);
    else if (w == 1) rc = mfront::gb::logarithmic_strain::integrate<Hooke<H>>(d, tfel::material::None);
    else rc = mfront::gb::finite_strain::integrate<SVK<H>>(d, tfel::material::None);
  } catch (std::exception& e) {
    std::snprintf(err, sizeof err, "exception: %s", e.what());
    rc = -3;
  }
  std::printf("R %d", rc);
  for (int i = 0; i != TS; ++i) std::printf(" %.17g", tf1[i]);
  for (int i = 0; i != TS * TS; ++i) std::printf(" %.17g", K[i]);
  std::printf(" %.17g", isv1[0]);
  if (rc < 0) {
    for (auto& ch : err) {
      if (ch == ' ' || ch == '\n') ch = '_';
    }
    std::printf(" ERR:%s", err);
  }
  std::printf("\n");
}

int main() {
  int w, h, sm, smf;
  while (std::cin >> w >> h >> sm >> smf) {
    switch (h) {
      case 0: call<MH::AXISYMMETRICALGENERALISEDPLANESTRAIN>(w, sm, smf, std::cin); break;
      case 1: call<MH::AXISYMMETRICALGENERALISEDPLANESTRESS>(w, sm, smf, std::cin); break;
      case 2: call<MH::AXISYMMETRICAL>(w, sm, smf, std::cin); break;
      case 3: call<MH::PLANESTRESS>(w, sm, smf, std::cin); break;
      case 4: call<MH::PLANESTRAIN>(w, sm, smf, std::cin); break;
      case 5: call<MH::GENERALISEDPLANESTRAIN>(w, sm, smf, std::cin); break;
      case 6: call<MH::TRIDIMENSIONAL>(w, sm, smf, std::cin); break;
      default: return 3;
    }
  }
  return 0;
}

// C55: behaviour classes used to call the REAL wrappers of /repo (shared by drive.cxx and trace.cxx)
//   * Hooke<H>   small strain Hooke's law on the strain it is given (stands for a generated small strain elastic behaviour).
//                Plane stress hypotheses: the axial strain is the internal state variable 0 (GenericBehaviourTraits::axial_strain_offset),
//                computed from sigma_axial = 0, the tangent is the plane stress one (axial row and column zero);
//   * SVK<H>     finite strain behaviour returning the Cauchy stress of the Saint-Venant Kirchhoff law; plane stress hypotheses: the
//                axial deformation gradient is the internal state variable 0 (axial_deformation_gradient_offset).  The tangent it
//                returns is a recognisable pattern (the wrapper must hand it over untouched).
#ifndef C55_MOCK_HXX
#define C55_MOCK_HXX
#include <cmath>
#include "TFEL/Math/tensor.hxx"
#include "TFEL/Math/stensor.hxx"
#include "TFEL/Math/st2tost2.hxx"
#include "TFEL/Math/t2tost2.hxx"
#include "TFEL/Math/t2tot2.hxx"
#include "TFEL/Material/MechanicalBehaviour.hxx"
#include "TFEL/Material/MechanicalBehaviourTraits.hxx"
#include "TFEL/Material/FiniteStrainBehaviourTangentOperator.hxx"
#include "MFront/GenericBehaviour/Integrate.hxx"
#include "MFront/GenericBehaviour/GenericBehaviourTraits.hxx"

namespace c55 {
using namespace tfel::math;
using MH = tfel::material::ModellingHypothesis;

template <MH::Hypothesis H>
struct Layout {
  static constexpr unsigned short N = tfel::material::ModellingHypothesisToSpaceDimension<H>::value;
  static constexpr auto StensorSize = tfel::material::ModellingHypothesisToStensorSize<H>::value;
  static constexpr auto TensorSize = tfel::material::ModellingHypothesisToTensorSize<H>::value;
  static constexpr bool plane_stress = (H == MH::PLANESTRESS) || (H == MH::AXISYMMETRICALGENERALISEDPLANESTRESS);
  // position of the axial component in the vectors of the hypothesis
  static constexpr int axial = (H == MH::AXISYMMETRICALGENERALISEDPLANESTRESS) ? 1 : 2;
};

// ------------------------------------------------------------------ small strain Hooke behaviour
template <MH::Hypothesis H>
struct Hooke : public tfel::material::MechanicalBehaviourBase,
               public tfel::material::TangentOperatorTraits<tfel::material::MechanicalBehaviourBase::STANDARDSTRAINBASEDBEHAVIOUR> {
  using L = Layout<H>;
  static constexpr unsigned short N = L::N;
  using real = double;
  using stress = double;
  using speed = double;
  using massdensity = double;
  stensor<N, double> eto1, sig;
  st2tost2<N, double> Dt;
  double lambda, mu, eaxial = 0;
  explicit Hooke(const mfront_gb_BehaviourData& d) {
    for (int i = 0; i != L::StensorSize; ++i) eto1[i] = d.s1.gradients[i];
    lambda = d.s1.material_properties[0];
    mu = d.s1.material_properties[1];
  }
  void setOutOfBoundsPolicy(const tfel::material::OutOfBoundsPolicy) {}
  bool initialize() { return true; }
  void checkBounds() const {}
  speed computeSpeedOfSound(const massdensity) const { return 0; }
  void stiffness() {
    if constexpr (L::plane_stress) {
      const double ls = 2 * lambda * mu / (lambda + 2 * mu);
      for (auto& x : Dt) x = 0;
      for (int i = 0; i != 3; ++i) {
        for (int j = 0; j != 3; ++j) {
          if (i != L::axial && j != L::axial) Dt(i, j) = ls + (i == j ? 2 * mu : 0);
        }
      }
      for (int i = 3; i != L::StensorSize; ++i) Dt(i, i) = 2 * mu;
    } else {
      Dt = lambda * st2tost2<N, double>::IxI() + 2 * mu * st2tost2<N, double>::Id();
    }
  }
  IntegrationResult computePredictionOperator(const SMFlag, const SMType) {
    stiffness();
    return SUCCESS;
  }
  const st2tost2<N, double>& getTangentOperator() const { return Dt; }
  std::pair<bool, real> computeAPrioriTimeStepScalingFactor(const real) const { return {true, 1.}; }
  IntegrationResult integrate(const SMFlag, const SMType) {
    stiffness();
    auto e = eto1;
    if constexpr (L::plane_stress) {
      // the axial component of the strain given by the caller is not meaningful in plane stress: sigma_axial = 0 defines it
      double tr = 0;
      for (int i = 0; i != 3; ++i) {
        if (i != L::axial) tr += eto1[i];
      }
      eaxial = -lambda * tr / (lambda + 2 * mu);
      e[L::axial] = eaxial;
    }
    sig = lambda * trace(e) * stensor<N, double>::Id() + 2 * mu * e;
    if constexpr (L::plane_stress) sig[L::axial] = 0;
    return SUCCESS;
  }
  std::pair<bool, real> computeAPosterioriTimeStepScalingFactor(const real) const { return {true, 1.}; }
  void exportStateData(mfront_gb_State& s) const {
    for (int i = 0; i != L::StensorSize; ++i) s.thermodynamic_forces[i] = sig[i];
    if constexpr (L::plane_stress) s.internal_state_variables[0] = eaxial;
  }
  real getMinimalTimeStepScalingFactor() const { return 0.1; }
};

// ------------------------------------------------------------------ finite strain Saint-Venant Kirchhoff behaviour
template <MH::Hypothesis H>
struct SVK : public tfel::material::MechanicalBehaviourBase,
             public tfel::material::TangentOperatorTraits<tfel::material::MechanicalBehaviourBase::STANDARDFINITESTRAINBEHAVIOUR> {
  using L = Layout<H>;
  static constexpr unsigned short N = L::N;
  using real = double;
  using stress = double;
  using speed = double;
  using massdensity = double;
  tensor<N, double> F1;
  stensor<N, double> sig;
  t2tot2<N, double> Dt;
  double lambda, mu, Faxial = 0;
  explicit SVK(const mfront_gb_BehaviourData& d) {
    for (int i = 0; i != L::TensorSize; ++i) F1[i] = d.s1.gradients[i];
    lambda = d.s1.material_properties[0];
    mu = d.s1.material_properties[1];
  }
  void setOutOfBoundsPolicy(const tfel::material::OutOfBoundsPolicy) {}
  bool initialize() { return true; }
  void checkBounds() const {}
  speed computeSpeedOfSound(const massdensity) const { return 0; }
  void pattern() {
    int k = 0;
    for (auto& x : Dt) x = 1000 + (k++);
  }
  IntegrationResult computePredictionOperator(const SMFlag, const SMType) {
    pattern();
    return SUCCESS;
  }
  const t2tot2<N, double>& getTangentOperator() const { return Dt; }
  std::pair<bool, real> computeAPrioriTimeStepScalingFactor(const real) const { return {true, 1.}; }
  IntegrationResult integrate(const SMFlag, const SMType) {
    pattern();
    auto F = F1;
    if constexpr (L::plane_stress) F[L::axial] = 1;  // placeholder so that the in-plane strain can be computed
    auto e = computeGreenLagrangeTensor(F);
    if constexpr (L::plane_stress) {
      double tr = 0;
      for (int i = 0; i != 3; ++i) {
        if (i != L::axial) tr += e[i];
      }
      e[L::axial] = -lambda * tr / (lambda + 2 * mu);
      Faxial = std::sqrt(1 + 2 * e[L::axial]);
      F[L::axial] = Faxial;
    }
    const stensor<N, double> S = lambda * trace(e) * stensor<N, double>::Id() + 2 * mu * e;
    sig = convertSecondPiolaKirchhoffStressToCauchyStress(S, F);
    return SUCCESS;
  }
  std::pair<bool, real> computeAPosterioriTimeStepScalingFactor(const real) const { return {true, 1.}; }
  void exportStateData(mfront_gb_State& s) const {
    for (int i = 0; i != L::StensorSize; ++i) s.thermodynamic_forces[i] = sig[i];
    if constexpr (L::plane_stress) s.internal_state_variables[0] = Faxial;
  }
  real getMinimalTimeStepScalingFactor() const { return 0.1; }
};

}  // namespace c55
namespace tfel::material {
  template <ModellingHypothesis::Hypothesis H>
  struct MechanicalBehaviourTraits<c55::Hooke<H>> {
    static constexpr bool is_defined = true;
    static constexpr bool hasConsistentTangentOperator = true;
    static constexpr bool hasPredictionOperator = true;
    static constexpr bool hasComputeInternalEnergy = false;
    static constexpr bool hasComputeDissipatedEnergy = false;
  };
  template <ModellingHypothesis::Hypothesis H>
  struct MechanicalBehaviourTraits<c55::SVK<H>> {
    static constexpr bool is_defined = true;
    static constexpr bool hasConsistentTangentOperator = true;
    static constexpr bool hasPredictionOperator = true;
    static constexpr bool hasComputeInternalEnergy = false;
    static constexpr bool hasComputeDissipatedEnergy = false;
  };
}  // namespace tfel::material
namespace mfront::gb {
  template <tfel::material::ModellingHypothesis::Hypothesis H>
  struct GenericBehaviourTraits<c55::Hooke<H>> {
    static constexpr auto hypothesis = H;
    static constexpr bool has_axial_strain_offset = true;
    static constexpr size_t axial_strain_offset = 0;
  };
  template <tfel::material::ModellingHypothesis::Hypothesis H>
  struct GenericBehaviourTraits<c55::SVK<H>> {
    static constexpr auto hypothesis = H;
    static constexpr bool has_axial_deformation_gradient_offset = true;
    static constexpr size_t axial_deformation_gradient_offset = 0;
  };
}  // namespace mfront::gb

#endif

#!/usr/bin/env python3
"""Apply as many seeded changes as fit together to the scratch worktree, build everything, run the pinned baseline,
record the outcome in each seeded/<id>/meta.json (confirmation.batch_*), revert.  Seeds that conflict with an earlier one
are left for the next batch (run again with --skip <ids already done>)."""
import json, os, subprocess, sys, time
V = os.path.dirname(os.path.dirname(os.path.abspath(__file__)))
wt = "/tmp/mutwt"
src = sys.argv[1] if len(sys.argv) > 1 else os.path.join(V, "seeded")
skip = set(sys.argv[2].split(",")) if len(sys.argv) > 2 else set()
def sh(cmd, **kw):
    return subprocess.run(cmd, stdout=subprocess.PIPE, stderr=subprocess.STDOUT, text=True, **kw)
assert not sh(["git", "-C", wt, "status", "--porcelain", "--untracked-files=no"]).stdout.strip(), "worktree not clean"
applied, left = [], []
for d in sorted(os.listdir(src)):
    p = os.path.join(src, d, "patch.diff")
    if not os.path.exists(p) or d in skip:
        continue
    if sh(["git", "-C", wt, "apply", "--check", p]).returncode == 0:
        sh(["git", "-C", wt, "apply", p]); applied.append(d)
    else:
        left.append(d)
print("applied together:", applied); print("left for another batch:", left, flush=True)
out = {}
try:
    t = time.time()
    r = sh(["cmake", "--build", os.path.join(wt, "_build"), "-j", "12"])
    out["batch_build_rc"] = r.returncode; out["batch_build_s"] = round(time.time() - t)
    if r.returncode != 0:
        print(r.stdout[-4000:])
    r = sh([sys.executable, os.path.join(V, "tools", "baseline_check.py"), os.path.join(wt, "_build")])
    out["batch_baseline"] = (r.stdout.strip().splitlines() or [""])[0]
    out["batch_baseline_detail"] = r.stdout.strip().splitlines()[1:6]
    out["batch_members"] = applied
    out["batch_head"] = sh(["git", "-C", wt, "rev-parse", "--short", "HEAD"]).stdout.strip()
finally:
    sh(["git", "-C", wt, "checkout", "--", "."])
print(json.dumps(out, indent=1))
for d in applied:
    mf = os.path.join(V, "seeded", d, "meta.json")
    m = json.load(open(mf)) if os.path.exists(mf) else {}
    m.setdefault("confirmation", {}).update(out)
    json.dump(m, open(mf, "w"), indent=1)

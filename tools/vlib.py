#!/usr/bin/env python3
"""Shared machinery of /verif checks: building tracers/drivers from /repo's working tree,
compiling Coq developments and reading `Print Assumptions`, reporting violations / known
findings, writing evidence.  Every props/<ID>/check.py uses one `Check` object."""
import argparse, fcntl, hashlib, json, os, random, re, shutil, subprocess, sys, time

VERIF = os.path.dirname(os.path.dirname(os.path.abspath(__file__)))
REPO = os.environ.get("VERIF_REPO", "/repo")
# generated configuration headers / built tools: those of REPO if it has been built, else those of /repo
REPO_BUILD = os.path.join(REPO, "_build") if os.path.isdir(os.path.join(REPO, "_build")) else "/repo/_build"
CACHE = os.path.join(VERIF, ".cache")
COQLIB = os.path.join(VERIF, "coq", "lib")
NPROC = os.cpu_count() or 4

# Axioms that the Coq standard library / installed libraries declare themselves.  Anything
# else reported by Print Assumptions makes the check fail (we declare no axiom).
ALLOWED_AXIOMS = {
    "ClassicalDedekindReals.sig_not_dec", "ClassicalDedekindReals.sig_forall_dec",
    "FunctionalExtensionality.functional_extensionality_dep",
    "Classical_Prop.classic", "Eqdep.Eq_rect_eq.eq_rect_eq",
    "ProofIrrelevance.proof_irrelevance", "JMeq.JMeq_eq",
    "PropExtensionality.propositional_extensionality",
    "ClassicalEpsilon.constructive_indefinite_description",
    "ChoiceFacts.constructive_definite_description",
    "Description.constructive_definite_description",
    "IndefiniteDescription.constructive_indefinite_description",
    "ClassicalUniqueChoice.dependent_unique_choice",
    "Epsilon.epsilon_statement",
}
# short names as printed when the module is imported
ALLOWED_SHORT = {a.split(".")[-1] for a in ALLOWED_AXIOMS}
# primitive ints / floats / arrays are kernel primitives, printed by Print Assumptions too
PRIMITIVE_PREFIXES = ("PrimFloat.", "PrimInt63.", "Uint63.", "FloatAxioms.", "FloatOps.", "PrimArray.",
                      "Int63.", "Sint63.", "Uint63Axioms.", "FloatLemmas.", "SpecFloat.", "PArray.",
                      "CarryType.", "PrimString.")

FORBIDDEN = re.compile(
    r"\b(Admitted|admit|Axiom|Axioms|Parameter|Parameters|Conjecture|Conjectures|Admit Obligations|"
    r"Unset Guard Checking|Unset Positivity Checking|Unset Universe Checking|bypass_check|type-in-type|"
    r"impredicative-set|give_up)\b")


class BuildError(Exception):
    pass


def sh(cmd, timeout=None, cwd=None, input=None, env=None):
    """run a command, return (rc, stdout, stderr); rc=124 on timeout"""
    try:
        p = subprocess.run(cmd, cwd=cwd, input=input, env=env, timeout=timeout,
                           stdout=subprocess.PIPE, stderr=subprocess.PIPE, text=True, errors="replace")
        return p.returncode, p.stdout, p.stderr
    except subprocess.TimeoutExpired as e:
        out = e.stdout.decode(errors="replace") if isinstance(e.stdout, bytes) else (e.stdout or "")
        err = e.stderr.decode(errors="replace") if isinstance(e.stderr, bytes) else (e.stderr or "")
        return 124, out, err + "\nTIMEOUT"


class FileLock:
    def __init__(self, path):
        os.makedirs(os.path.dirname(path), exist_ok=True)
        self.path = path

    def __enter__(self):
        self.f = open(self.path, "w")
        fcntl.flock(self.f, fcntl.LOCK_EX)
        return self

    def __exit__(self, *a):
        fcntl.flock(self.f, fcntl.LOCK_UN)
        self.f.close()


def ensure_coq_lib():
    """(re)build /verif/coq/lib if needed (no-op when up to date)"""
    with FileLock(os.path.join(CACHE, "coqlib.lock")):
        rc, out, err = sh(["make", "-C", os.path.join(VERIF, "coq"), "-j", str(NPROC)], timeout=1800)
        if rc != 0:
            raise BuildError("coq lib build failed:\n" + out[-3000:] + err[-3000:])


def repo_lib_dirs():
    dirs = set()
    for root, _d, files in os.walk(REPO_BUILD):
        if any(f.endswith(".so") for f in files):
            dirs.add(root)
    return sorted(dirs)


class CoqResult:
    def __init__(self):
        self.ok = True
        self.files = []          # (file, ok, seconds)
        self.theorems = []       # names of theorems in property files
        self.discharged = []     # names checked
        self.failed = []         # (file, line, theorem, message)
        self.axioms = set()
        self.bad_axioms = set()
        self.log = ""


class Check:
    def __init__(self, pid, level="proof", argv=None):
        ap = argparse.ArgumentParser()
        ap.add_argument("--tier", default=os.environ.get("VERIF_TIER", "quick"), choices=["quick", "thorough"])
        ap.add_argument("--replay", default=None)
        ap.add_argument("--keep", action="store_true", help="keep scratch directory")
        a = ap.parse_args(argv if argv is not None else sys.argv[1:])
        self.pid = pid
        self.level = level
        self.tier = a.tier
        self.replay_path = a.replay
        self.replay = json.load(open(a.replay)) if a.replay else None
        try:
            self.seed = int(os.environ.get("VERIF_SEED", "20260922"))
        except ValueError:
            self.seed = 20260922
        self.rng = random.Random(self.seed)
        self.t0 = time.time()
        self.dir = os.path.join(VERIF, "props", pid)
        # one scratch directory per run (two runs of the same check may overlap); removed at the end unless --keep
        self.keep = a.keep
        self.work = os.path.join(CACHE, "work", pid if a.keep else "%s.%d" % (pid, os.getpid()))
        if os.path.exists(self.work):
            shutil.rmtree(self.work, ignore_errors=True)
        os.makedirs(self.work, exist_ok=True)
        self._sweep_stale_work()
        self.violations = []     # (key, what, replay_file, found_input)
        self.known_hits = []
        self.coverage = {"samples": [], "trusted_base": [], "obligations": 0, "discharged": 0,
                         "evaluations": 0, "distinct_nontrivial": 0, "checker_cmd": "", "rule": ""}
        self.assumptions = []
        self.notes = []
        # known findings: props/<ID>/known_findings.json (committed; never written at run time)
        kf = os.path.join(self.dir, "known_findings.json")
        self.known = json.load(open(kf)) if os.path.exists(kf) else []
        self._distinct = set()

    def _sweep_stale_work(self):
        """remove scratch directories of runs whose process is gone"""
        wd = os.path.join(CACHE, "work")
        try:
            for d in os.listdir(wd):
                m = re.match(r"^(C\d+)\.(\d+)$", d)
                if m and not os.path.exists("/proc/%s" % m.group(2)):
                    shutil.rmtree(os.path.join(wd, d), ignore_errors=True)
        except OSError:
            pass

    def quick(self):
        return self.tier == "quick"

    def pick(self, q, t):
        return q if self.tier == "quick" else t

    def log(self, *a):
        print("[%s %6.1fs]" % (self.pid, time.time() - self.t0), *a, flush=True)

    # ------------------------------------------------------------------ C++
    def cxx_flags(self):
        return ["-std=c++20", "-I" + os.path.join(VERIF, "cxx", "sym"), "-I" + os.path.join(VERIF, "cxx"),
                "-I" + os.path.join(REPO, "include"), "-I" + os.path.join(REPO_BUILD, "include"),
                "-I" + os.path.join(REPO, "mfront", "include"), "-I" + os.path.join(REPO, "mtest", "include"),
                "-I" + os.path.join(REPO, "tfel-check", "include"),
                "-I" + os.path.join(REPO_BUILD, "mfront", "include"),
                "-DTHELFER_TFEL_VERIF"]

    def _obj(self, src, flags, cxx="g++"):
        """compile one translation unit with a cache keyed by the preprocessed source"""
        rc, pre, err = sh([cxx] + flags + ["-E", "-P", src], timeout=300)
        if rc != 0:
            raise BuildError("preprocessing of %s failed:\n%s" % (src, err[-4000:]))
        h = hashlib.sha256((" ".join(flags) + cxx + pre).encode()).hexdigest()[:24]
        odir = os.path.join(CACHE, "obj")
        os.makedirs(odir, exist_ok=True)
        obj = os.path.join(odir, h + ".o")
        if not os.path.exists(obj):
            import threading, uuid
            tmp = obj + ".%d.%d.%s.tmp" % (os.getpid(), threading.get_ident(), uuid.uuid4().hex[:8])
            rc, out, err = sh([cxx] + flags + ["-c", src, "-o", tmp], timeout=1800)
            if rc != 0:
                raise BuildError("compilation of %s failed:\n%s" % (src, err[-6000:]))
            try:
                os.replace(tmp, obj)
            except FileNotFoundError:
                if not os.path.exists(obj):
                    raise
        return obj

    def cxx(self, name, sources, repo_sources=(), flags=(), libs=(), opt="-O1", cxx="g++", link_repo_libs=False):
        """build an executable from our sources (relative to props/<ID>/ or absolute) and sources taken from
        /repo's working tree (relative to /repo).  Returns the path of the binary."""
        fl = self.cxx_flags() + [opt] + list(flags)
        objs = []
        jobs = []
        for s in sources:
            jobs.append(s if os.path.isabs(s) else os.path.join(self.dir, s))
        for s in repo_sources:
            jobs.append(os.path.join(REPO, s))
        # compile in parallel
        from concurrent.futures import ThreadPoolExecutor
        with ThreadPoolExecutor(max_workers=min(NPROC, max(1, len(jobs)))) as ex:
            objs = list(ex.map(lambda s: self._obj(s, fl, cxx), jobs))
        exe = os.path.join(self.work, name)
        cmd = [cxx] + objs + ["-o", exe] + list(libs) + ["-lpthread"]
        if link_repo_libs:
            for d in repo_lib_dirs():
                cmd += ["-L" + d, "-Wl,-rpath," + d]
        rc, out, err = sh(cmd, timeout=600)
        if rc != 0:
            raise BuildError("link of %s failed:\n%s" % (name, err[-4000:]))
        return exe

    _private_shm = None

    @classmethod
    def private_shm_ok(cls):
        """can we give a command its own /dev/shm (private mount namespace)?  Used for every run of `mfront`, whose
        inter-process lock is the system-wide named semaphore /dev/shm/sem.mfront-<uid>: isolated runs cannot be
        blocked by (or block) another check, a killed run cannot leave the shared semaphore at 0."""
        if cls._private_shm is None:
            rc, out, err = sh(["unshare", "-m", "sh", "-c", "mount -t tmpfs tmpfs /dev/shm && echo ok"], timeout=30)
            cls._private_shm = (rc == 0 and "ok" in out)
        return cls._private_shm

    def run(self, cmd, timeout=600, input=None, cwd=None, env=None):
        if cmd and os.path.basename(str(cmd[0])) == "mfront" and Check.private_shm_ok():
            cmd = ["unshare", "-m", "sh", "-c", 'mount -t tmpfs tmpfs /dev/shm && exec "$@"', "sh"] + list(cmd)
        e = dict(os.environ)
        e["LD_LIBRARY_PATH"] = ":".join(repo_lib_dirs()) + ":" + e.get("LD_LIBRARY_PATH", "")
        if env:
            e.update(env)
        return sh(cmd, timeout=timeout, input=input, cwd=cwd or self.work, env=e)

    def repo_build(self, targets, timeout=3600):
        """incremental build of executables/libraries of /repo/_build from the current working tree"""
        with FileLock(os.path.join(CACHE, "repo_build.lock")):
            rc, out, err = sh(["cmake", "--build", REPO_BUILD, "-j", str(NPROC), "--target"] + list(targets),
                              timeout=timeout)
        if rc != 0:
            raise BuildError("cmake --build of %s failed:\n%s" % (targets, (out + err)[-5000:]))

    # ------------------------------------------------------------------ Coq
    def coq(self, files, timeout=900, extra_dirs=(), parallel=True):
        """compile Coq files.  `files` = list of paths (relative to props/<ID>/coq, or absolute for generated
        files).  All are copied to the scratch dir and compiled there in the given order with logical prefix
        <ID>.  Files named Properties*.v are the property statements: their theorems are the obligations and
        the `Print Assumptions` output in them is parsed."""
        ensure_coq_lib()
        res = CoqResult()
        wd = os.path.join(self.work, "coq")
        os.makedirs(wd, exist_ok=True)
        names = []
        for f in files:
            src = f if os.path.isabs(f) else os.path.join(self.dir, "coq", f)
            dst = os.path.join(wd, os.path.basename(src))
            if os.path.abspath(src) != os.path.abspath(dst):
                shutil.copyfile(src, dst)
            names.append(os.path.basename(src))
        # forbidden constructs
        for n in names:
            txt = open(os.path.join(wd, n)).read()
            txt_nc = re.sub(r"\(\*.*?\*\)", "", txt, flags=re.S)
            m = FORBIDDEN.search(txt_nc)
            if m:
                res.ok = False
                res.failed.append((n, 0, "", "forbidden construct: " + m.group(0)))
        if not res.ok:
            return res
        base = ["coqc", "-q", "-Q", COQLIB, "VLib", "-R", wd, self.pid]
        for d in extra_dirs:
            base += ["-Q", d[0], d[1]]
        self.coverage["checker_cmd"] = "coqc -Q coq/lib VLib -R <scratch> %s <files: %s> (Coq 8.16.1, full .vo compilation)" % (
            self.pid, " ".join(names))
        for n in names:
            path = os.path.join(wd, n)
            txt = open(path).read()
            isprop = n.startswith("Properties")
            thms = []
            for m in re.finditer(r"^\s*(?:Theorem|Lemma|Corollary|Example|Fact|Remark|Proposition)\s+([A-Za-z_][\w']*)", txt, flags=re.M):
                thms.append((m.group(1), txt.count("\n", 0, m.start()) + 1))
            if isprop:
                res.theorems += [t[0] for t in thms]
            t1 = time.time()
            rc, out, err = sh(base + [path], timeout=timeout, cwd=wd)
            dt = time.time() - t1
            res.log += "== %s rc=%d %.1fs\n%s%s\n" % (n, rc, dt, out[-20000:], err[-6000:])
            res.files.append((n, rc == 0, round(dt, 1)))
            if rc == 0:
                if isprop:
                    res.discharged += [t[0] for t in thms]
                if isprop:
                    self._parse_assumptions(out, res)
            else:
                res.ok = False
                line = 0
                m = re.search(r'File "[^"]*", line (\d+)', err)
                if m:
                    line = int(m.group(1))
                cur = ""
                for (t, l) in thms:
                    if l <= line:
                        cur = t
                done = [t for (t, l) in thms if l < line and t != cur] if line else []
                if isprop:
                    res.discharged += done
                msg = "timeout" if rc == 124 else err.strip()[-1500:]
                res.failed.append((n, line, cur, msg))
                # later files probably depend on this one: stop
                break
        if res.ok and self.tier == "thorough" and not os.environ.get("VERIF_NO_COQCHK"):
            self._coqchk(wd, [n[:-2] for n in names if n.startswith("Properties")], extra_dirs, res)
        self.coverage["obligations"] += len(res.theorems)
        self.coverage["discharged"] += len(res.discharged)
        for a in sorted(res.axioms):
            tb = "axiom (Print Assumptions): " + a
            if tb not in self.coverage["trusted_base"]:
                self.coverage["trusted_base"].append(tb)
        if res.bad_axioms:
            res.ok = False
            res.failed.append(("", 0, "", "axioms outside the standard-library allow-list: " + ", ".join(sorted(res.bad_axioms))))
        with open(os.path.join(self.work, "coq.log"), "a") as f:
            f.write(res.log)
        return res

    def _coqchk(self, wd, modules, extra_dirs, res):
        """thorough tier: re-check the compiled property files (and everything they depend on) with the independent
        checker coqchk; its report on guard / positivity / universe switches must be empty.  Capped in time: a timeout is
        recorded in the evidence, it is not a violation."""
        if not modules:
            return
        spent = getattr(self, "_coqchk_spent", 0.0)
        budget = float(os.environ.get("VERIF_COQCHK_BUDGET", "1200"))
        if spent >= budget:
            self.coverage.setdefault("coqchk", []).append({"modules": modules, "result": "skipped: per-run coqchk budget of %ds used up" % budget})
            return
        cmd = ["coqchk", "-silent", "-o", "-Q", COQLIB, "VLib", "-R", wd, self.pid]
        for d in extra_dirs:
            cmd += ["-Q", d[0], d[1]]
        cmd += ["%s.%s" % (self.pid, m) for m in modules]
        t1 = time.time()
        rc, out, err = sh(cmd, timeout=int(os.environ.get("VERIF_COQCHK_TIMEOUT", "900")), cwd=wd)
        self._coqchk_spent = spent + (time.time() - t1)
        rep = self.coverage.setdefault("coqchk", [])
        entry = {"modules": modules, "rc": rc, "seconds": round(time.time() - t1, 1)}
        if rc == 124:
            entry["result"] = "timed out (not a violation)"
        elif rc != 0:
            entry["result"] = "failed: " + (out + err)[-400:]
            res.ok = False
            res.failed.append(("", 0, "coqchk", "coqchk rejects the compiled property files: " + (out + err)[-800:]))
        else:
            out = out + "\n" + err
            bad = []
            for title in ("relying on type-in-type", "relying on unsafe (co)fixpoints", "whose positivity is assumed"):
                m = re.search(re.escape(title) + r":\s*(.*?)\n\s*\n", out + "\n\n", flags=re.S)
                if m and "<none>" not in m.group(1):
                    bad.append(title + ": " + " ".join(m.group(1).split())[:200])
            ax = re.search(r"\* Axioms:\s*(.*?)\n\s*\n", out + "\n\n", flags=re.S)
            entry["axioms"] = ax.group(1).split() if ax and "<none>" not in ax.group(1) else []
            entry["result"] = "ok" if not bad else "unsafe: " + "; ".join(bad)
            if bad:
                res.ok = False
                res.failed.append(("", 0, "coqchk", "; ".join(bad)))
        rep.append(entry)
        self.trusted("coqchk (independent checker) run on the property files in the thorough tier")

    def _parse_assumptions(self, out, res):
        inax = False
        for line in out.splitlines():
            if line.startswith("Axioms:"):
                inax = True
                continue
            if line.startswith("Closed under the global context"):
                inax = False
                continue
            if inax:
                m = re.match(r"^([A-Za-z_][\w.']*)\s*(:|$)", line)
                if m:
                    a = m.group(1)
                    res.axioms.add(a)
                    if not (a in ALLOWED_AXIOMS or a in ALLOWED_SHORT or a.startswith(PRIMITIVE_PREFIXES)
                            or a.split(".")[-1] in ALLOWED_SHORT):
                        res.bad_axioms.add(a)
                elif line and not line.startswith(" "):
                    inax = False

    def coq_eval(self, model_files, cases_v, timeout=900):
        """compile model files (as in coq()) then a harness-written file of `Eval vm_compute in ...` /
        `Compute ...` commands; returns (rc, stdout, stderr) of that last coqc call.  Model files are NOT counted
        as obligations (use coq() for the property files)."""
        ensure_coq_lib()
        wd = os.path.join(self.work, "coq")
        os.makedirs(wd, exist_ok=True)
        base = ["coqc", "-q", "-Q", COQLIB, "VLib", "-R", wd, self.pid]
        for f in model_files:
            src = f if os.path.isabs(f) else os.path.join(self.dir, "coq", f)
            dst = os.path.join(wd, os.path.basename(src))
            if os.path.abspath(src) != os.path.abspath(dst):
                shutil.copyfile(src, dst)
            vo = dst[:-2] + ".vo"
            if not os.path.exists(vo) or os.path.getmtime(vo) < os.path.getmtime(dst):
                rc, out, err = sh(base + [dst], timeout=timeout, cwd=wd)
                if rc != 0:
                    raise BuildError("model file %s does not compile:\n%s" % (f, err[-3000:]))
        cases = os.path.join(wd, "Cases_%d.v" % (len(os.listdir(wd))))
        with open(cases, "w") as f:
            f.write(cases_v)
        return sh(base + [cases], timeout=timeout, cwd=wd)

    def ocaml_extract(self, name, model_files, extract_v, driver_ml, timeout=900):
        """extract a Gallina model to OCaml and build a driver.  `extract_v` (text) must `Require` the model,
        `Require Import ExtrOcamlBasic` (only) and end with `Extraction "<name>_model.ml" f g ...`.
        `driver_ml` is the path of the hand-written OCaml driver (relative to props/<ID>/).  Returns the binary."""
        ensure_coq_lib()
        wd = os.path.join(self.work, "coq")
        os.makedirs(wd, exist_ok=True)
        base = ["coqc", "-q", "-Q", COQLIB, "VLib", "-R", wd, self.pid]
        for f in model_files:
            src = f if os.path.isabs(f) else os.path.join(self.dir, "coq", f)
            dst = os.path.join(wd, os.path.basename(src))
            if os.path.abspath(src) != os.path.abspath(dst):
                shutil.copyfile(src, dst)
            vo = dst[:-2] + ".vo"
            if not os.path.exists(vo) or os.path.getmtime(vo) < os.path.getmtime(dst):
                rc, out, err = sh(base + [dst], timeout=timeout, cwd=wd)
                if rc != 0:
                    raise BuildError("model file %s does not compile:\n%s" % (f, err[-3000:]))
        ex = os.path.join(wd, "Extract_%s.v" % name)
        with open(ex, "w") as f:
            f.write(extract_v)
        for m in re.finditer(r"Extract\s+(Constant|Inductive|Inlined Constant)\s+[^.]*\.", extract_v):
            self.trusted("extraction directive: " + " ".join(m.group(0).split()))
        self.trusted("Coq extraction to OCaml with ExtrOcamlBasic (bool, option, unit, prod, list, sumbool, sumor mapped to OCaml types)")
        rc, out, err = sh(base + [ex], timeout=timeout, cwd=wd)
        if rc != 0:
            raise BuildError("extraction failed:\n" + err[-3000:])
        ml = os.path.join(wd, name + "_model.ml")
        drv = driver_ml if os.path.isabs(driver_ml) else os.path.join(self.dir, driver_ml)
        shutil.copyfile(drv, os.path.join(wd, name + "_driver.ml"))
        exe = os.path.join(self.work, name + "_ml")
        cmd = ["ocamlfind", "ocamlopt", "-w", "-a", "-O2" if False else "-inline", "100", "-I", wd]
        if os.path.exists(ml + "i"):
            cmd.append(ml + "i")
        cmd += [ml, os.path.join(wd, name + "_driver.ml"), "-o", exe]
        rc, out, err = sh(cmd, timeout=600, cwd=wd)
        if rc != 0:
            raise BuildError("ocaml build failed:\n" + (out + err)[-3000:])
        return exe

    # ------------------------------------------------------------------ reporting
    def sample(self, s, limit=8):
        if len(self.coverage["samples"]) < limit:
            self.coverage["samples"].append(s)

    def count(self, n=1, distinct_key=None, nontrivial=True):
        self.coverage["evaluations"] += n
        if distinct_key is not None and nontrivial:
            self._distinct.add(distinct_key if isinstance(distinct_key, (str, int, tuple)) else json.dumps(distinct_key, sort_keys=True))

    def trusted(self, *items):
        for i in items:
            if i not in self.coverage["trusted_base"]:
                self.coverage["trusted_base"].append(i)

    def report(self, key, what, replay=None, found_input=True):
        """report a property failure identified by `key` (stable identifier of the failing input / call site).
        Listed known findings print KNOWN-FINDING; anything else is a VIOLATION."""
        for k in self.known:
            if k.get("property") == self.pid and k.get("status") == "finding" and k.get("key") == key:
                if key not in self.known_hits:
                    self.known_hits.append(key)
                    print("KNOWN-FINDING: property=%s %s" % (self.pid, k.get("what", what)), flush=True)
                return False
        for v in self.violations:
            if v[0] == key:
                return True
        os.makedirs(os.path.join(VERIF, "replays"), exist_ok=True)
        h = hashlib.sha256((self.pid + key).encode()).hexdigest()[:10]
        path = os.path.join(VERIF, "replays", "%s-%s.json" % (self.pid, h))
        obj = {"property": self.pid, "key": key, "what": what, "failing_input_found": bool(found_input),
               "replay": replay if replay is not None else {}, "seed": self.seed, "tier": self.tier,
               "replay_cmd": "./check %s --replay %s" % (self.pid, path)}
        with open(path, "w") as f:
            json.dump(obj, f, indent=1, default=str)
        self.violations.append((key, what, path, found_input))
        return True

    def coq_failures(self, res, search=None):
        """turn failed proof obligations into reports.  `search(failure)` may return (key, what, replay) of a
        concrete failing input; otherwise the violation is reported with no-failing-input-found."""
        for (f, line, thm, msg) in res.failed:
            hit = None
            if search is not None:
                try:
                    hit = search((f, line, thm, msg))
                except Exception as e:  # the search must never mask the broken obligation
                    self.notes.append("failing-input search raised %r" % (e,))
            if hit:
                self.report(hit[0], hit[1], hit[2], True)
            else:
                self.report("coq:%s:%s" % (f, thm or line), "proof obligation %s in %s no longer checks: %s" % (thm or "?", f, msg[-600:]),
                            {"theorem": thm, "file": f, "line": line, "message": msg[-3000:]}, False)

    def finish(self, assumptions=None, explanation=None):
        cov = self.coverage
        cov["distinct_nontrivial"] = max(cov.get("distinct_nontrivial", 0), len(self._distinct))
        if explanation:
            cov["explanation"] = explanation
        if self.notes:
            cov["notes"] = self.notes
        if self.known_hits:
            cov["known_findings_reproduced"] = self.known_hits
        ev = {"property_id": self.pid, "tier": self.tier, "seed": self.seed, "level": self.level,
              "coverage": cov, "assumptions": (assumptions or []) + self.assumptions,
              "wall_s": round(time.time() - self.t0, 2), "violations": len(self.violations)}
        os.makedirs(os.path.join(VERIF, "evidence"), exist_ok=True)
        with open(os.path.join(VERIF, "evidence", self.pid + ".json"), "w") as f:
            json.dump(ev, f, indent=1, default=str)
        for (key, what, path, found) in self.violations:
            print("  violation: %s" % what[:1000])
            print("VIOLATION property=%s replay=%s%s" % (self.pid, path, "" if found else " no-failing-input-found"), flush=True)
        if self.replay is not None:
            k = self.replay.get("key")
            hit = any(v[0] == k for v in self.violations) or k in self.known_hits
            print("REPLAY key=%s %s" % (k, "reproduced" if hit else "NOT reproduced on the current tree"))
        if not self.keep and not self.violations:
            shutil.rmtree(self.work, ignore_errors=True)
        if not self.violations:
            print("OK property=%s tier=%s obligations=%d/%d evaluations=%d wall=%.1fs" % (
                self.pid, self.tier, cov["discharged"], cov["obligations"], cov["evaluations"], time.time() - self.t0))
        return 1 if self.violations else 0


def guarded_main(pid, fn, level="proof"):
    """run fn(check); infrastructure errors that stem from /repo's code (it no longer builds with our
    tracer/driver) are violations without failing input; other exceptions are re-raised."""
    c = Check(pid, level)
    try:
        fn(c)
    except BuildError as e:
        c.report("build", "tracer/driver could not be rebuilt from /repo's working tree (correspondence broken): " + str(e)[-1500:],
                 {"error": str(e)[-6000:]}, False)
    sys.exit(c.finish())

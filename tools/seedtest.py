#!/usr/bin/env python3
"""Try a seeded change against the checks without touching /repo.
usage: seedtest.py <dir with patch.diff> <ID> [--wt /tmp/mutwt] [--build target,...] [--baseline]
Applies patch.diff to the scratch worktree (which has its own _build), optionally rebuilds targets and runs the
pinned baseline there, runs `VERIF_REPO=<wt> ./check <ID>`, reverts the patch, prints what happened."""
import argparse, json, os, subprocess, sys, time
V = os.path.dirname(os.path.dirname(os.path.abspath(__file__)))
ap = argparse.ArgumentParser()
ap.add_argument("dir"); ap.add_argument("pid")
ap.add_argument("--wt", default="/tmp/mutwt")
ap.add_argument("--build", default="")
ap.add_argument("--baseline", action="store_true")
ap.add_argument("--tier", default="quick")
a = ap.parse_args()
patch = os.path.join(os.path.abspath(a.dir), "patch.diff")
def sh(cmd, **kw):
    return subprocess.run(cmd, stdout=subprocess.PIPE, stderr=subprocess.STDOUT, text=True, **kw)
r = sh(["git", "-C", a.wt, "status", "--porcelain", "--untracked-files=no"])
if r.stdout.strip():
    print("worktree not clean:", r.stdout); sys.exit(2)
r = sh(["git", "-C", a.wt, "apply", patch])
if r.returncode != 0:
    print("patch does not apply:", r.stdout); sys.exit(2)
out = {"property": a.pid, "patch": patch}
try:
    if a.build:
        t = time.time()
        r = sh(["cmake", "--build", os.path.join(a.wt, "_build"), "-j", "12", "--target"] + a.build.split(","))
        out["build_rc"] = r.returncode; out["build_s"] = round(time.time() - t)
        if r.returncode != 0:
            print(r.stdout[-3000:])
    if a.baseline:
        r = sh([sys.executable, os.path.join(V, "tools", "baseline_check.py"), os.path.join(a.wt, "_build")])
        out["baseline_rc"] = r.returncode; out["baseline"] = r.stdout.strip().splitlines()[0] if r.stdout else ""
    env = dict(os.environ); env["VERIF_REPO"] = a.wt
    t = time.time()
    r = sh([os.path.join(V, "check"), a.pid, "--tier", a.tier], cwd=V, env=env)
    out["check_rc"] = r.returncode; out["check_s"] = round(time.time() - t)
    out["violation_lines"] = [l for l in r.stdout.splitlines() if l.startswith("VIOLATION")][:5]
    out["first_violation_text"] = [l.strip()[:400] for l in r.stdout.splitlines() if l.strip().startswith("violation:")][:3]
    out["detected"] = r.returncode == 1 and bool(out["violation_lines"])
finally:
    sh(["git", "-C", a.wt, "checkout", "--", "."])
print(json.dumps(out, indent=1))

#!/usr/bin/env python3
"""Run the pinned baseline suite (ctest in REPO_BUILD) and compare the set of passing tests with BASELINE.json.
usage: baseline_check.py [build_dir]"""
import json, subprocess, sys, xml.etree.ElementTree as ET, tempfile, os
bd = sys.argv[1] if len(sys.argv) > 1 else "/repo/_build"
b = json.load(open("/root/.vp/BASELINE.json"))
want = set(x.split("::")[0] for x in b["stable_pass"])
out = tempfile.mktemp(suffix=".xml")
subprocess.run(["ctest", "--test-dir", bd, "-j8", "--timeout", "900", "--output-junit", out], stdout=subprocess.DEVNULL, stderr=subprocess.DEVNULL)
root = ET.parse(out).getroot()
passed = set()
for tc in root.iter("testcase"):
    if tc.get("status") == "run" and tc.find("failure") is None and tc.find("error") is None and tc.find("skipped") is None:
        passed.add(tc.get("name"))
os.unlink(out)
missing = sorted(want - passed)
print("baseline stable_pass: %d, passing now: %d, baseline tests not passing now: %d" % (len(want), len(passed & want), len(missing)))
for m in missing[:20]:
    print("  MISSING", m)
sys.exit(1 if missing else 0)

#!/usr/bin/env python3
"""Confirm a seeded change and record it under /verif/seeded/<ID>/.
usage: seedconfirm.py <seed dir> <ID> [--no-build] [--check-only]
Steps (all in the scratch worktree /tmp/mutwt that has its own _build; /repo is never touched):
 demo on the clean tree (must exit 0) -> apply patch -> demo (must exit != 0) -> full incremental build + pinned
 baseline (must stay at 636) -> VERIF_REPO=/tmp/mutwt ./check <ID> (recorded) -> revert -> rebuild is left to the next run."""
import argparse, json, os, shutil, subprocess, sys, time
V = os.path.dirname(os.path.dirname(os.path.abspath(__file__)))
ap = argparse.ArgumentParser()
ap.add_argument("dir"); ap.add_argument("pid")
ap.add_argument("--wt", default="/tmp/mutwt")
ap.add_argument("--no-build", action="store_true")
ap.add_argument("--check-only", action="store_true")
ap.add_argument("--name", default=None)
a = ap.parse_args()
src = os.path.abspath(a.dir)
name = a.name or a.pid
dst = os.path.join(V, "seeded", name)
def sh(cmd, **kw):
    return subprocess.run(cmd, stdout=subprocess.PIPE, stderr=subprocess.STDOUT, text=True, **kw)
def demo():
    s = os.path.join(src, "build_and_run.sh")
    if not os.path.exists(s):
        return None, "no build_and_run.sh"
    r = sh(["bash", s, a.wt], cwd=src, timeout=1800)
    return r.returncode, r.stdout[-1500:]
meta = json.load(open(os.path.join(src, "meta.json"))) if os.path.exists(os.path.join(src, "meta.json")) else {}
if os.path.exists(os.path.join(dst, "meta.json")):
    meta = json.load(open(os.path.join(dst, "meta.json")))
ran = meta.setdefault("confirmation", {})
if sh(["git", "-C", a.wt, "status", "--porcelain", "--untracked-files=no"]).stdout.strip():
    print("worktree not clean"); sys.exit(2)
patch = os.path.join(src, "patch.diff")
if not a.check_only:
    rc0, out0 = demo()
    ran["demo_on_unchanged_tree_exit"] = rc0
r = sh(["git", "-C", a.wt, "apply", patch])
if r.returncode != 0:
    print("patch does not apply:", r.stdout); sys.exit(2)
try:
    if not a.check_only:
        rc1, out1 = demo()
        ran["demo_on_changed_tree_exit"] = rc1
        ran["demo_changed_output_tail"] = (out1 or "")[-600:]
        if not a.no_build:
            t = time.time()
            r = sh(["cmake", "--build", os.path.join(a.wt, "_build"), "-j", "10"])
            ran["full_build_rc"] = r.returncode; ran["full_build_s"] = round(time.time() - t)
            r = sh([sys.executable, os.path.join(V, "tools", "baseline_check.py"), os.path.join(a.wt, "_build")])
            ran["baseline"] = (r.stdout.strip().splitlines() or [""])[0]; ran["baseline_rc"] = r.returncode
    if os.path.exists(os.path.join(V, "props", a.pid, "check.py")):
        env = dict(os.environ); env["VERIF_REPO"] = a.wt
        t = time.time()
        r = sh([os.path.join(V, "check"), a.pid, "--tier", "quick"], cwd=V, env=env)
        ran["check_cmd"] = "VERIF_REPO=%s ./check %s --tier quick" % (a.wt, a.pid)
        ran["check_rc"] = r.returncode; ran["check_s"] = round(time.time() - t)
        ran["check_violation_lines"] = len([l for l in r.stdout.splitlines() if l.startswith("VIOLATION")])
        ran["check_no_failing_input_only"] = all("no-failing-input-found" in l for l in r.stdout.splitlines() if l.startswith("VIOLATION")) if ran["check_violation_lines"] else None
        ran["check_first_violations"] = [l.strip()[:500] for l in r.stdout.splitlines() if l.strip().startswith("violation:")][:3]
        ran["detected_by_check"] = (r.returncode == 1 and ran["check_violation_lines"] > 0)
    else:
        ran["detected_by_check"] = None
finally:
    sh(["git", "-C", a.wt, "checkout", "--", "."])
os.makedirs(dst, exist_ok=True)
for f in os.listdir(src):
    fp = os.path.join(src, f)
    if f != "meta.json" and os.path.isfile(fp) and os.path.getsize(fp) < 2000000:
        shutil.copy(fp, os.path.join(dst, f))
meta["property"] = a.pid
json.dump(meta, open(os.path.join(dst, "meta.json"), "w"), indent=1)
print(json.dumps(ran, indent=1))

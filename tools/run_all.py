#!/usr/bin/env python3
"""Run every registered check (MANIFEST.json) and print a summary table.
usage: run_all.py [--tier quick|thorough] [-j N] [IDs...]"""
import argparse, json, os, subprocess, sys, time
from concurrent.futures import ThreadPoolExecutor
V = os.path.dirname(os.path.dirname(os.path.abspath(__file__)))
ap = argparse.ArgumentParser()
ap.add_argument("--tier", default="quick")
ap.add_argument("-j", type=int, default=4)
ap.add_argument("ids", nargs="*")
a = ap.parse_args()
m = json.load(open(os.path.join(V, "MANIFEST.json")))
ids = a.ids or [c["property_id"] for c in m["checks"]]
os.makedirs(os.path.join(V, ".cache", "logs"), exist_ok=True)

def run(pid):
    t = time.time()
    log = os.path.join(V, ".cache", "logs", "%s.%s.log" % (pid, a.tier))
    with open(log, "w") as f:
        p = subprocess.run([os.path.join(V, "check"), pid, "--tier", a.tier], cwd=V, stdout=f, stderr=subprocess.STDOUT)
    txt = open(log).read()
    return pid, p.returncode, time.time() - t, txt.count("VIOLATION property="), txt.count("KNOWN-FINDING:")

with ThreadPoolExecutor(max_workers=a.j) as ex:
    res = list(ex.map(run, ids))
bad = 0
for pid, rc, dt, nv, nk in res:
    print("%-5s rc=%d %6.1fs violations=%d known=%d" % (pid, rc, dt, nv, nk))
    bad += rc != 0
print("checks: %d, failing: %d" % (len(res), bad))
sys.exit(1 if bad else 0)

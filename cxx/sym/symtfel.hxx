// Glue that lets the unmodified TFEL headers of /repo instantiate with T = symv::Sym.
// Include this header BEFORE any TFEL math header that is to be traced.
#ifndef VERIF_SYMTFEL_HXX
#define VERIF_SYMTFEL_HXX
#include "sym.hxx"
#include "TFEL/Metaprogramming/InvalidType.hxx"
#include "TFEL/TypeTraits/IsScalar.hxx"
#include "TFEL/TypeTraits/IsReal.hxx"
#include "TFEL/TypeTraits/IsFundamentalNumericType.hxx"
#include "TFEL/TypeTraits/BaseType.hxx"
#include "TFEL/TypeTraits/IsAssignableTo.hxx"
#include "TFEL/TypeTraits/Promote.hxx"
#include "TFEL/TypeTraits/AbsType.hxx"
#include "TFEL/TypeTraits/RealPartType.hxx"
#include "TFEL/Math/General/BasicOperations.hxx"
#include "TFEL/Math/General/ConstExprMathFunctions.hxx"
#include "TFEL/Math/General/Abs.hxx"
#include "TFEL/Math/General/IEEE754.hxx"
#include "TFEL/Math/power.hxx"

namespace tfel::typetraits {
  using symv::Sym;
  template <> struct IsScalar<Sym> { static constexpr bool cond = true; };
  template <> struct IsScalar<const Sym> { static constexpr bool cond = true; };
  template <> struct IsReal<Sym> { static constexpr bool cond = true; };
  template <> struct IsReal<const Sym> { static constexpr bool cond = true; };
  template <> struct IsFundamentalNumericType<Sym> { static constexpr bool cond = true; };
  template <> struct IsFundamentalNumericType<const Sym> { static constexpr bool cond = true; };
#ifdef VERIF_SYM_BASETYPE_DOUBLE
  // opt-in (per tracer): code that declares `constexpr base_type<real>` constants and uses them in lambdas without
  // capture only instantiates when the base type is a fundamental type; double constants still fold into Sym exactly
  template <> struct BaseType<Sym> { using type = double; };
#else
  template <> struct BaseType<Sym> { using type = Sym; };
#endif
  template <> struct AbsType<Sym> { using type = Sym; };
  template <> struct RealPartType<Sym> { using type = Sym; };
  template <> struct Promote<Sym, Sym> { using type = Sym; };
  template <typename A> requires std::is_arithmetic_v<A> struct Promote<Sym, A> { using type = Sym; };
  template <typename A> requires std::is_arithmetic_v<A> struct Promote<A, Sym> { using type = Sym; };
  template <> struct IsAssignableTo<Sym, Sym> { static constexpr bool value = true; static constexpr bool cond = true; };
  template <typename A> requires std::is_arithmetic_v<A> struct IsAssignableTo<A, Sym> {
    static constexpr bool value = true; static constexpr bool cond = true; };
}  // namespace tfel::typetraits

namespace tfel::math {
  using symv::Sym;
  template <BasicScalarBinaryOperationConcept Op>
  struct ComputeBinaryOperationResult<ScalarTag, ScalarTag, Sym, Sym, Op> { using type = Sym; };
  template <typename A, BasicScalarBinaryOperationConcept Op> requires std::is_arithmetic_v<A>
  struct ComputeBinaryOperationResult<ScalarTag, ScalarTag, Sym, A, Op> { using type = Sym; };
  template <typename A, BasicScalarBinaryOperationConcept Op> requires std::is_arithmetic_v<A>
  struct ComputeBinaryOperationResult<ScalarTag, ScalarTag, A, Sym, Op> { using type = Sym; };
  template <>
  struct ComputeUnaryOperationResult<ScalarTag, UnaryOperatorTag, Sym, OpNeg> { using type = Sym; };
  template <int N, unsigned int D>
  requires(D != 0) struct UnaryResultType<Sym, Power<N, D>> { using type = Sym; };

  // non-template overloads win over the ScalarConcept templates
  inline Sym abs(const Sym& s) noexcept { return symv::abs(s); }
  template <int N>
  inline Sym power(const Sym& x) noexcept { return symv::powi(x, N); }
  template <int N, unsigned int D>
  requires(D != 0) inline Sym power(const Sym& x) noexcept {
    if constexpr (D == 1) return symv::powi(x, N);
    else if constexpr (N == 1 && D == 2) return symv::sqrt(x);
    else if constexpr (N == 1 && D == 3) return symv::cbrt(x);
    else return symv::pow(x, Sym(N) / Sym(static_cast<long long>(D)));
  }
  namespace constexpr_fct {
    constexpr Sym sqrt(const Sym& v) { return symv::sqrt(v); }
    constexpr Sym abs(const Sym& v) { return symv::abs(v); }
  }  // namespace constexpr_fct
  namespace ieee754 {
    inline bool isnan(const Sym&) noexcept { return false; }
    inline bool isfinite(const Sym&) noexcept { return true; }
    inline int fpclassify(const Sym& s) noexcept { return (s.isconst() && s.iszero()) ? FP_ZERO : FP_NORMAL; }
  }  // namespace ieee754
}  // namespace tfel::math

// found by argument-dependent lookup from tfel::math templates (stensor::exportTab, write, ...)
namespace symv {
  constexpr Sym& base_type_cast(Sym& v) noexcept { return v; }
  constexpr const Sym& base_type_cast(const Sym& v) noexcept { return v; }
}  // namespace symv

#endif

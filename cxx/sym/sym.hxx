// Engine S: symbolic scalar `Sym`.
// A literal type whose arithmetic folds constants of the form (num/den)*sqrt(rad) at
// compile time and otherwise builds a hash-consed expression DAG at run time.
// Comparisons between non-constant values consult a path oracle (see Paths below).
#ifndef VERIF_SYM_HXX
#define VERIF_SYM_HXX
#include <cmath>
#include <cstdint>
#include <cstdio>
#include <cstdlib>
#include <functional>
#include <limits>
#include <map>
#include <set>
#include <sstream>
#include <stdexcept>
#include <string>
#include <tuple>
#include <type_traits>
#include <vector>

namespace symv {

  enum Op : int {
    VAR, CST, DCST, ADD, SUB, MUL, DIV, NEG, SQRT, ABS, EXP, LOG, POW, COS, SIN, TAN,
    ACOS, ASIN, ATAN, ATAN2, CBRT, COSH, SINH, TANH, LOG10, POWI, UFUN, ACOSH, ASINH, ATANH
  };

  struct Node {
    int op;
    int a = -1, b = -1;
    long long num = 0, den = 1;
    int rad = 1;
    double d = 0;
    std::string name;
    std::vector<int> args;
  };

  struct Store {
    std::vector<Node> nodes;
    std::map<std::string, int> index;
    static Store& get() {
      static Store s;
      return s;
    }
    int intern(const Node& n) {
      std::ostringstream k;
      k << n.op << '|' << n.a << '|' << n.b << '|' << n.num << '|' << n.den << '|' << n.rad << '|';
      if (n.op == DCST) {
        char buf[64];
        std::snprintf(buf, sizeof buf, "%a", n.d);
        k << buf;
      }
      k << '|' << n.name << '|';
      for (int x : n.args) k << x << ',';
      auto it = index.find(k.str());
      if (it != index.end()) return it->second;
      nodes.push_back(n);
      int id = static_cast<int>(nodes.size()) - 1;
      index[k.str()] = id;
      return id;
    }
  };

  struct SymError : std::runtime_error {
    using std::runtime_error::runtime_error;
  };

  constexpr long long cgcd(long long a, long long b) {
    if (a < 0) a = -a;
    if (b < 0) b = -b;
    while (b != 0) {
      long long t = a % b;
      a = b;
      b = t;
    }
    return a;
  }

  struct Sym;
  int node_of(const Sym&);
  Sym mk1(int op, const Sym& a);
  Sym mk2(int op, const Sym& a, const Sym& b);
  bool decide_lt(const Sym& a, const Sym& b);
  bool decide_le(const Sym& a, const Sym& b);
  bool decide_eq(const Sym& a, const Sym& b);

  // kind 0: (num/den)*sqrt(rad), rad in {1,2,3,6}; kind 1: DAG node; kind 2: double literal
  struct Sym {
    int kind = 0;
    long long num = 0, den = 1;
    int rad = 1;
    double d = 0;
    int id = -1;
    constexpr Sym() = default;
    constexpr Sym(const Sym&) = default;
    constexpr Sym& operator=(const Sym&) = default;
    template <typename A>
    requires std::is_integral_v<A>
    constexpr Sym(A v) : kind(0), num(static_cast<long long>(v)), den(1) {}
    template <typename A>
    requires std::is_floating_point_v<A>
    constexpr Sym(A v0) {
      const double v = static_cast<double>(v0);
      // exact small rational?
      bool found = false;
#ifdef VERIF_SYM_EXACT_DOUBLES
      // opt-in (per tracer): a double is never replaced by a nearby rational; only dyadic values with at most 20
      // fractional bits become (exact) rationals, every other double stays a literal with its exact value
      if (v == v && v < 1e9 && v > -1e9) {
        const double sc = v * 1048576.0;
        const long long si = static_cast<long long>(sc);
        if (static_cast<double>(si) == sc) {
          const long long g0 = cgcd(si, 1048576LL);
          kind = 0;
          num = si / g0;
          den = 1048576LL / g0;
          rad = 1;
          found = true;
        }
      }
      if (!found) {
        kind = 2;
        d = v;
      }
      if (found || !found) return;
#endif
      if (v == v && v < 9e15 && v > -9e15) {
        // continued fraction expansion
        double x = v < 0 ? -v : v;
        long long p0 = 0, q0 = 1, p1 = 1, q1 = 0;
        double r = x;
        for (int it = 0; it < 40 && !found; ++it) {
          long long ai = static_cast<long long>(r);
          long long p2 = ai * p1 + p0, q2 = ai * q1 + q0;
          if (q2 > 2000000000LL || p2 > 4000000000000000LL || q2 <= 0) break;
          p0 = p1; q0 = q1; p1 = p2; q1 = q2;
          if (static_cast<double>(p1) / static_cast<double>(q1) == x) {
            found = true;
            break;
          }
          double fr = r - static_cast<double>(ai);
          if (fr <= 0) break;
          r = 1.0 / fr;
          if (r > 1e15) break;
        }
        if (found) {
          kind = 0;
          num = v < 0 ? -p1 : p1;
          den = q1;
          rad = 1;
        }
      }
      if (!found) {
        kind = 2;
        d = v;
      }
    }
    constexpr bool isconst() const { return kind != 1; }
    constexpr bool iszero() const { return (kind == 0 && num == 0) || (kind == 2 && d == 0); }
    constexpr bool isone() const { return kind == 0 && num == 1 && den == 1 && rad == 1; }
    constexpr double approx() const {
      if (kind == 2) return d;
      double r = static_cast<double>(num) / static_cast<double>(den);
      if (rad == 2) r *= 1.4142135623730950488;
      if (rad == 3) r *= 1.7320508075688772935;
      if (rad == 6) r *= 2.4494897427831780982;
      return r;
    }
    constexpr Sym& operator+=(const Sym& o);
    constexpr Sym& operator-=(const Sym& o);
    constexpr Sym& operator*=(const Sym& o);
    constexpr Sym& operator/=(const Sym& o);
    // evaluation / conversion helpers (explicit only)
    explicit operator double() const;
  };

  constexpr bool mul_ovf(long long a, long long b, long long& r) { return __builtin_mul_overflow(a, b, &r); }
  constexpr bool add_ovf(long long a, long long b, long long& r) { return __builtin_add_overflow(a, b, &r); }

  constexpr bool mkrat(long long n, long long d, int rad, Sym& out) {
    if (d == 0) return false;
    if (d < 0) {
      if (n == std::numeric_limits<long long>::min() || d == std::numeric_limits<long long>::min()) return false;
      n = -n;
      d = -d;
    }
    long long g = cgcd(n, d);
    if (g > 1) {
      n /= g;
      d /= g;
    }
    if (n == 0) {
      d = 1;
      rad = 1;
    }
    out.kind = 0;
    out.num = n;
    out.den = d;
    out.rad = rad;
    out.d = 0;
    out.id = -1;
    return true;
  }

  constexpr Sym dlit(double v) {
    Sym s;
    s.kind = 2;
    s.d = v;
    return s;
  }

  // try folding; returns true on success
  constexpr bool fold_add(const Sym& a, const Sym& b, bool sub, Sym& out) {
    if (a.kind == 1 || b.kind == 1) return false;
    if (a.kind == 2 || b.kind == 2) {
      if (a.iszero() && !sub) { out = b; return true; }
      if (b.iszero()) { out = a; return true; }
      out = dlit(sub ? a.approx() - b.approx() : a.approx() + b.approx());
      return true;
    }
    if (b.num == 0) { out = a; return true; }
    if (a.num == 0) { return mkrat(sub ? -b.num : b.num, b.den, b.rad, out); }
    if (a.rad != b.rad) return false;
    long long g = cgcd(a.den, b.den);
    long long bd = b.den / g, ad = a.den / g;
    long long t1 = 0, t2 = 0, n = 0, d = 0;
    if (mul_ovf(a.num, bd, t1) || mul_ovf(b.num, ad, t2)) return false;
    if (sub) t2 = -t2;
    if (add_ovf(t1, t2, n) || mul_ovf(a.den, bd, d)) return false;
    return mkrat(n, d, a.rad, out);
  }
  constexpr bool fold_mul(const Sym& a, const Sym& b, Sym& out) {
    if (a.kind == 1 || b.kind == 1) return false;
    if (a.kind == 2 || b.kind == 2) {
      if (a.isone()) { out = b; return true; }
      if (b.isone()) { out = a; return true; }
      out = dlit(a.approx() * b.approx());
      return true;
    }
    long long g1 = cgcd(a.num, b.den), g2 = cgcd(b.num, a.den);
    if (g1 == 0) g1 = 1;
    if (g2 == 0) g2 = 1;
    long long n = 0, d = 0;
    if (mul_ovf(a.num / g1, b.num / g2, n) || mul_ovf(a.den / g2, b.den / g1, d)) return false;
    int rad = 1;
    long long extra = 1;
    // sqrt(r1)*sqrt(r2)
    int r1 = a.rad, r2 = b.rad;
    if (r1 == r2) { extra = r1; rad = 1; }
    else if (r1 == 1) rad = r2;
    else if (r2 == 1) rad = r1;
    else if ((r1 == 2 && r2 == 3) || (r1 == 3 && r2 == 2)) rad = 6;
    else if ((r1 == 2 && r2 == 6) || (r1 == 6 && r2 == 2)) { extra = 2; rad = 3; }
    else if ((r1 == 3 && r2 == 6) || (r1 == 6 && r2 == 3)) { extra = 3; rad = 2; }
    else return false;
    long long n2 = 0;
    if (mul_ovf(n, extra, n2)) return false;
    return mkrat(n2, d, rad, out);
  }
  constexpr bool fold_inv(const Sym& b, Sym& out) {
    if (b.kind == 1) return false;
    if (b.kind == 2) { out = dlit(1.0 / b.d); return true; }
    if (b.num == 0) return false;
    // 1/((n/d) sqrt r) = d sqrt r /(n r)
    long long nr = 0;
    if (mul_ovf(b.num, static_cast<long long>(b.rad), nr)) return false;
    return mkrat(b.den, nr, b.rad, out);
  }

  constexpr Sym operator+(const Sym& a, const Sym& b) {
    Sym r;
    if (fold_add(a, b, false, r)) return r;
    if (a.isconst() && a.iszero()) return b;
    if (b.isconst() && b.iszero()) return a;
    return mk2(ADD, a, b);
  }
  constexpr Sym operator-(const Sym& a) {
    Sym r;
    if (a.kind == 0) {
      if (mkrat(-a.num, a.den, a.rad, r)) return r;
    }
    if (a.kind == 2) return dlit(-a.d);
    return mk1(NEG, a);
  }
  constexpr Sym operator+(const Sym& a) { return a; }
  constexpr Sym operator-(const Sym& a, const Sym& b) {
    Sym r;
    if (fold_add(a, b, true, r)) return r;
    if (b.isconst() && b.iszero()) return a;
    if (a.isconst() && a.iszero()) return -b;
    return mk2(SUB, a, b);
  }
  constexpr Sym operator*(const Sym& a, const Sym& b) {
    Sym r;
    if (fold_mul(a, b, r)) return r;
    if (a.isconst() && a.iszero()) return Sym(0);
    if (b.isconst() && b.iszero()) return Sym(0);
    if (a.isone()) return b;
    if (b.isone()) return a;
    return mk2(MUL, a, b);
  }
  constexpr Sym operator/(const Sym& a, const Sym& b) {
    Sym ib, r;
    if (a.isconst() && b.isconst() && fold_inv(b, ib) && fold_mul(a, ib, r)) return r;
    if (b.isone()) return a;
    if (a.isconst() && a.iszero() && !(b.isconst() && b.iszero())) return Sym(0);
    return mk2(DIV, a, b);
  }
  constexpr Sym& Sym::operator+=(const Sym& o) { return *this = *this + o; }
  constexpr Sym& Sym::operator-=(const Sym& o) { return *this = *this - o; }
  constexpr Sym& Sym::operator*=(const Sym& o) { return *this = *this * o; }
  constexpr Sym& Sym::operator/=(const Sym& o) { return *this = *this / o; }

#define SYMV_MIXED(OPN)                                                                    \
  template <typename A>                                                                    \
  requires std::is_arithmetic_v<A>                                                         \
  constexpr Sym operator OPN(const Sym& a, A b) { return a OPN Sym(b); }                   \
  template <typename A>                                                                    \
  requires std::is_arithmetic_v<A>                                                         \
  constexpr Sym operator OPN(A a, const Sym& b) { return Sym(a) OPN b; }
  SYMV_MIXED(+)
  SYMV_MIXED(-)
  SYMV_MIXED(*)
  SYMV_MIXED(/)
#undef SYMV_MIXED

  // ---- comparisons
  constexpr int cmp_const(const Sym& a, const Sym& b) {
    // exact when both rational with same rad sign logic; fallback approx
    if (a.kind == 0 && b.kind == 0 && a.rad == b.rad) {
      __int128 l = static_cast<__int128>(a.num) * b.den, r = static_cast<__int128>(b.num) * a.den;
      return l < r ? -1 : (l > r ? 1 : 0);
    }
    double x = a.approx(), y = b.approx();
    return x < y ? -1 : (x > y ? 1 : 0);
  }
  constexpr bool operator<(const Sym& a, const Sym& b) {
    if (a.isconst() && b.isconst()) return cmp_const(a, b) < 0;
    return decide_lt(a, b);
  }
  constexpr bool operator<=(const Sym& a, const Sym& b) {
    if (a.isconst() && b.isconst()) return cmp_const(a, b) <= 0;
    return decide_le(a, b);
  }
  constexpr bool operator>(const Sym& a, const Sym& b) { return b < a; }
  constexpr bool operator>=(const Sym& a, const Sym& b) { return b <= a; }
  constexpr bool operator==(const Sym& a, const Sym& b) {
    if (a.isconst() && b.isconst()) return cmp_const(a, b) == 0;
    return decide_eq(a, b);
  }
  constexpr bool operator!=(const Sym& a, const Sym& b) { return !(a == b); }
#define SYMV_MIXEDC(OPN)                                                                   \
  template <typename A>                                                                    \
  requires std::is_arithmetic_v<A>                                                         \
  constexpr bool operator OPN(const Sym& a, A b) { return a OPN Sym(b); }                  \
  template <typename A>                                                                    \
  requires std::is_arithmetic_v<A>                                                         \
  constexpr bool operator OPN(A a, const Sym& b) { return Sym(a) OPN b; }
  SYMV_MIXEDC(<)
  SYMV_MIXEDC(<=)
  SYMV_MIXEDC(>)
  SYMV_MIXEDC(>=)
  SYMV_MIXEDC(==)
  SYMV_MIXEDC(!=)
#undef SYMV_MIXEDC

  // ---- functions
  constexpr Sym csqrt_const(const Sym& a, bool& ok) {
    ok = false;
    Sym r;
    if (a.kind != 0 || a.rad != 1 || a.num < 0) return r;
    // sqrt(n/d) = sqrt(n*d)/d ; extract square part of n*d
    long long nd = 0;
    if (mul_ovf(a.num, a.den, nd)) return r;
    long long sq = 1, rem = nd;
    for (long long f = 2; f * f <= rem && f < 100000; ++f) {
      while (rem % (f * f) == 0) {
        rem /= f * f;
        sq *= f;
      }
    }
    if (rem == 1 || rem == 2 || rem == 3 || rem == 6 || rem == 0) {
      ok = mkrat(sq, a.den, rem == 0 ? 1 : static_cast<int>(rem), r);
      if (rem == 0) ok = mkrat(0, 1, 1, r);
    }
    return r;
  }
  constexpr Sym sqrt(const Sym& a) {
    bool ok = false;
    Sym r = csqrt_const(a, ok);
    if (ok) return r;
    if (a.kind == 2) {
      // Newton iterations (constexpr friendly)
      double x = a.d;
      if (x <= 0) return dlit(x == 0 ? 0. : std::numeric_limits<double>::quiet_NaN());
      double g = x > 1 ? x : 1;
      for (int i = 0; i < 200; ++i) g = 0.5 * (g + x / g);
      return dlit(g);
    }
    return mk1(SQRT, a);
  }
  constexpr Sym abs(const Sym& a) {
    Sym r;
    if (a.kind == 0 && mkrat(a.num < 0 ? -a.num : a.num, a.den, a.rad, r)) return r;
    if (a.kind == 2) return dlit(a.d < 0 ? -a.d : a.d);
    return mk1(ABS, a);
  }
  constexpr Sym fabs(const Sym& a) { return abs(a); }
  constexpr Sym powi(const Sym& a, int n) {
    if (n == 0) return Sym(1);
    if (n == 1) return a;
    if (a.isconst()) {
      Sym r(1);
      Sym b = a;
      int m = n < 0 ? -n : n;
      bool good = true;
      for (int i = 0; i < m && good; ++i) {
        Sym t;
        good = fold_mul(r, b, t);
        r = t;
      }
      if (good) {
        if (n > 0) return r;
        Sym ir;
        if (fold_inv(r, ir)) return ir;
      }
    }
    Sym e(n);
    return mk2(POWI, a, e);
  }
  inline Sym exp(const Sym& a) { return (a.isconst() && a.iszero()) ? Sym(1) : mk1(EXP, a); }
  inline Sym log(const Sym& a) { return a.isone() ? Sym(0) : mk1(LOG, a); }
  inline Sym log10(const Sym& a) { return mk1(LOG10, a); }
  inline Sym log1p(const Sym& a) { return log(Sym(1) + a); }  // additive (C24): ln(1 + a), exact in the reals
  inline Sym cos(const Sym& a) { return (a.isconst() && a.iszero()) ? Sym(1) : mk1(COS, a); }
  inline Sym sin(const Sym& a) { return (a.isconst() && a.iszero()) ? Sym(0) : mk1(SIN, a); }
  inline Sym tan(const Sym& a) { return mk1(TAN, a); }
  inline Sym acos(const Sym& a) { return mk1(ACOS, a); }
  inline Sym asin(const Sym& a) { return mk1(ASIN, a); }
  inline Sym atan(const Sym& a) { return mk1(ATAN, a); }
  inline Sym cosh(const Sym& a) { return mk1(COSH, a); }
  inline Sym sinh(const Sym& a) { return mk1(SINH, a); }
  inline Sym tanh(const Sym& a) { return mk1(TANH, a); }
  inline Sym acosh(const Sym& a) { return mk1(ACOSH, a); }
  inline Sym asinh(const Sym& a) { return mk1(ASINH, a); }
  inline Sym atanh(const Sym& a) { return mk1(ATANH, a); }
  inline Sym cbrt(const Sym& a) {
    if (a.kind == 0 && a.rad == 1) {
      // perfect cubes
      long long n = a.num < 0 ? -a.num : a.num, d = a.den;
      long long rn = std::llround(std::cbrt(static_cast<double>(n))), rd = std::llround(std::cbrt(static_cast<double>(d)));
      if (rn * rn * rn == n && rd * rd * rd == d) {
        Sym r;
        if (mkrat(a.num < 0 ? -rn : rn, rd, 1, r)) return r;
      }
    }
    return mk1(CBRT, a);
  }
  inline Sym atan2(const Sym& a, const Sym& b) { return mk2(ATAN2, a, b); }
  inline Sym pow(const Sym& a, const Sym& b) {
    if (b.kind == 0 && b.den == 1 && b.rad == 1 && b.num >= -64 && b.num <= 64) return powi(a, static_cast<int>(b.num));
    return mk2(POW, a, b);
  }
  template <typename A>
  requires std::is_arithmetic_v<A>
  inline Sym pow(const Sym& a, A b) { return pow(a, Sym(b)); }
  template <typename A>
  requires std::is_arithmetic_v<A>
  inline Sym pow(A a, const Sym& b) { return pow(Sym(a), b); }
  inline bool isnan(const Sym&) { return false; }
  inline bool isfinite(const Sym&) { return true; }
  inline bool isinf(const Sym&) { return false; }
  inline Sym max(const Sym& a, const Sym& b) { return (a < b) ? b : a; }
  inline Sym min(const Sym& a, const Sym& b) { return (b < a) ? b : a; }

  // ---- node construction
  inline int node_of(const Sym& s) {
    if (s.kind == 1) return s.id;
    Node n;
    if (s.kind == 0) {
      n.op = CST;
      n.num = s.num;
      n.den = s.den;
      n.rad = s.rad;
    } else {
      n.op = DCST;
      n.d = s.d;
    }
    return Store::get().intern(n);
  }
  inline Sym from_node(int id) {
    Sym s;
    s.kind = 1;
    s.id = id;
    return s;
  }
  inline Sym mk1(int op, const Sym& a) {
    Node n;
    n.op = op;
    n.a = node_of(a);
    // --x = x
    if (op == NEG) {
      const Node& c = Store::get().nodes[n.a];
      if (c.op == NEG) return from_node(c.a);
    }
    return from_node(Store::get().intern(n));
  }
  inline Sym mk2(int op, const Sym& a, const Sym& b) {
    Node n;
    n.op = op;
    n.a = node_of(a);
    n.b = node_of(b);
    return from_node(Store::get().intern(n));
  }
  inline Sym var(const std::string& name) {
    Node n;
    n.op = VAR;
    n.name = name;
    return from_node(Store::get().intern(n));
  }
  inline std::vector<Sym> vars(const std::string& prefix, int n) {
    std::vector<Sym> v;
    for (int i = 0; i < n; ++i) v.push_back(var(prefix + std::to_string(i)));
    return v;
  }
  inline Sym ufun(const std::string& name, const std::vector<Sym>& args) {
    Node n;
    n.op = UFUN;
    n.name = name;
    for (auto& a : args) n.args.push_back(node_of(a));
    return from_node(Store::get().intern(n));
  }

  // ---- evaluation in long double
  using Env = std::map<std::string, long double>;
  using UFunEval = std::function<long double(const std::string&, const std::vector<long double>&)>;
  inline long double eval_node(int id, const Env& env, std::map<int, long double>& memo, const UFunEval* uf = nullptr) {
    auto it = memo.find(id);
    if (it != memo.end()) return it->second;
    const Node n = Store::get().nodes[id];
    auto A = [&] { return eval_node(n.a, env, memo, uf); };
    auto B = [&] { return eval_node(n.b, env, memo, uf); };
    long double r = 0;
    switch (n.op) {
      case VAR: {
        auto e = env.find(n.name);
        if (e == env.end()) throw SymError("unbound variable " + n.name);
        r = e->second;
        break;
      }
      case CST:
        r = static_cast<long double>(n.num) / static_cast<long double>(n.den);
        if (n.rad != 1) r *= std::sqrt(static_cast<long double>(n.rad));
        break;
      case DCST: r = n.d; break;
      case ADD: r = A() + B(); break;
      case SUB: r = A() - B(); break;
      case MUL: r = A() * B(); break;
      case DIV: r = A() / B(); break;
      case NEG: r = -A(); break;
      case SQRT: r = std::sqrt(A()); break;
      case ABS: r = std::fabs(A()); break;
      case EXP: r = std::exp(A()); break;
      case LOG: r = std::log(A()); break;
      case LOG10: r = std::log10(A()); break;
      case POW: r = std::pow(A(), B()); break;
      case POWI: r = std::pow(A(), B()); break;
      case COS: r = std::cos(A()); break;
      case SIN: r = std::sin(A()); break;
      case TAN: r = std::tan(A()); break;
      case ACOS: r = std::acos(A()); break;
      case ASIN: r = std::asin(A()); break;
      case ATAN: r = std::atan(A()); break;
      case ATAN2: r = std::atan2(A(), B()); break;
      case CBRT: r = std::cbrt(A()); break;
      case COSH: r = std::cosh(A()); break;
      case SINH: r = std::sinh(A()); break;
      case TANH: r = std::tanh(A()); break;
      case ACOSH: r = std::acosh(A()); break;
      case ASINH: r = std::asinh(A()); break;
      case ATANH: r = std::atanh(A()); break;
      case UFUN: {
        std::vector<long double> xs;
        for (int x : n.args) xs.push_back(eval_node(x, env, memo, uf));
        if (!uf) throw SymError("no evaluator for uninterpreted function " + n.name);
        r = (*uf)(n.name, xs);
        break;
      }
      default: throw SymError("eval: bad op");
    }
    memo[id] = r;
    return r;
  }
  inline long double eval(const Sym& s, const Env& env, const UFunEval* uf = nullptr) {
    std::map<int, long double> memo;
    return eval_node(node_of(s), env, memo, uf);
  }
  inline Sym::operator double() const {
    if (kind != 1) return approx();
    throw SymError("conversion of a non-constant Sym to double");
  }

  // ---- path oracle
  // A condition is (rel, a, b) with rel in {LT, LE, EQ} on node ids.
  enum Rel : int { LT = 0, LE = 1, EQ = 2 };
  struct Cond {
    int rel;
    int a, b;
    bool value;
  };
  struct Paths {
    bool active = false;
    std::vector<bool> prefix;       // forced decisions
    std::vector<Cond> taken;        // decisions made in this run
    // knowledge per ordered pair (lo,hi): bitmask of {1: lo<hi, 2: lo==hi, 4: lo>hi} still possible
    std::map<std::pair<int, int>, int> know;
    size_t max_decisions = 64;
    static Paths& get() {
      static Paths p;
      return p;
    }
    void reset_run() {
      taken.clear();
      know.clear();
    }
  };
  struct PathLimit : std::runtime_error {
    using std::runtime_error::runtime_error;
  };
  inline bool decide_rel(int rel, const Sym& sa, const Sym& sb) {
    Paths& P = Paths::get();
    int a = node_of(sa), b = node_of(sb);
    if (a == b) return rel != LT;
    if (!P.active) throw SymError("comparison of symbolic values outside of path enumeration");
    // set of outcomes (in terms of a ? b) making rel true
    int truemask = rel == LT ? 1 : (rel == LE ? 3 : 2);
    bool swapped = a > b;
    auto key = swapped ? std::make_pair(b, a) : std::make_pair(a, b);
    auto sw = [](int m) { return ((m & 1) ? 4 : 0) | (m & 2) | ((m & 4) ? 1 : 0); };
    int tm = swapped ? sw(truemask) : truemask;
    int& k = P.know.try_emplace(key, 7).first->second;
    if ((k & ~tm) == 0) return true;
    if ((k & tm) == 0) return false;
    bool v;
    size_t i = P.taken.size();
    if (i < P.prefix.size()) v = P.prefix[i];
    else v = true;
    if (i >= P.max_decisions) throw PathLimit("too many decisions on one path");
    P.taken.push_back({rel, a, b, v});
    k &= v ? tm : ~tm;
    return v;
  }
  inline bool decide_lt(const Sym& a, const Sym& b) { return decide_rel(LT, a, b); }
  inline bool decide_le(const Sym& a, const Sym& b) { return decide_rel(LE, a, b); }
  inline bool decide_eq(const Sym& a, const Sym& b) { return decide_rel(EQ, a, b); }

  struct Leaf {
    std::vector<Cond> conds;
    std::vector<Sym> out;
    std::string error;  // non-empty if the function threw
  };
  // enumerate all paths of f (DFS on decisions)
  inline std::vector<Leaf> enumerate(const std::function<std::vector<Sym>()>& f, size_t max_leaves = 20000) {
    Paths& P = Paths::get();
    std::vector<Leaf> leaves;
    P.active = true;
    P.prefix.clear();
    while (true) {
      P.reset_run();
      Leaf L;
      try {
        L.out = f();
      } catch (PathLimit&) {
        P.active = false;
        throw;
      } catch (SymError&) {
        P.active = false;
        throw;
      } catch (std::exception& e) {
        L.error = e.what();
        if (L.error.empty()) L.error = "exception";
      }
      L.conds = P.taken;
      leaves.push_back(L);
      if (leaves.size() > max_leaves) {
        P.active = false;
        throw PathLimit("too many leaves");
      }
      // next prefix: flip last 'true' decision
      std::vector<bool> nx;
      for (auto& c : P.taken) nx.push_back(c.value);
      while (!nx.empty() && !nx.back()) nx.pop_back();
      if (nx.empty()) break;
      nx.back() = false;
      P.prefix = nx;
    }
    P.active = false;
    P.prefix.clear();
    return leaves;
  }

  // ---- Coq printing
  struct Printer {
    std::map<int, int> refs;        // reference counts within the printed term set
    std::map<int, std::string> names;  // let-bound names
    std::vector<int> order;
    void count(int id) {
      if (++refs[id] > 1) return;
      const Node& n = Store::get().nodes[id];
      if (n.a >= 0) count(n.a);
      if (n.b >= 0) count(n.b);
      for (int x : n.args) count(x);
    }
    static bool atomic(const Node& n) { return n.op == VAR || n.op == CST || n.op == DCST; }
    // additive option: print double literals as their exact dyadic rational instead of the shortest decimal
    static bool& exact_dyadic() {
      static bool b = false;
      return b;
    }
    // decimal string of m * 2^k (m >= 0, k >= 0)
    static std::string dec_shift(unsigned long long m, int k) {
      std::string d = std::to_string(m);  // most significant digit first
      for (int i = 0; i < k; ++i) {
        int carry = 0;
        for (size_t j = d.size(); j-- > 0;) {
          int v = (d[j] - '0') * 2 + carry;
          d[j] = static_cast<char>('0' + v % 10);
          carry = v / 10;
        }
        if (carry) d.insert(d.begin(), static_cast<char>('0' + carry));
      }
      return d;
    }
    // exact value of a finite double: returns numerator (signed) and denominator (power of two) as decimal strings
    static void dyadic_parts(double v, std::string& num, std::string& den) {
      if (!(v == v) || v - v != 0) throw SymError("dyadic: non-finite double literal");
      int e = 0;
      double m = std::frexp(v < 0 ? -v : v, &e);  // m in [0.5,1)
      unsigned long long mi = static_cast<unsigned long long>(std::ldexp(m, 53));
      e -= 53;
      while (mi != 0 && (mi & 1ULL) == 0 && e < 0) {
        mi >>= 1;
        ++e;
      }
      if (mi == 0) e = 0;
      num = (v < 0 ? "-" : "") + dec_shift(mi, e > 0 ? e : 0);
      den = dec_shift(1ULL, e < 0 ? -e : 0);
    }
    static std::string dyadic(double v) {
      std::string n, d;
      dyadic_parts(v, n, d);
      std::string core = n[0] == '-' ? n.substr(1) : n;
      if (d != "1") core = "(" + core + " / " + d + ")";
      if (n[0] == '-') core = "(- " + core + ")";
      return core;
    }
    static std::string cst(const Node& n) {
      std::ostringstream o;
      if (n.op == CST) {
        std::string r;
        if (n.num < 0) o << "(-" << -n.num << ")";
        else o << n.num;
        std::string core = o.str();
        if (n.den != 1) core = "(" + core + " / " + std::to_string(n.den) + ")";
        if (n.rad != 1) core = "(" + core + " * sqrt " + std::to_string(n.rad) + ")";
        return core;
      }
      // optional (off by default): exact dyadic value of the double, `(m / 2^k)` with both integers in decimal
      if (exact_dyadic()) return dyadic(n.d);
      // double literal: shortest decimal that round trips
      char buf[64];
      int prec = 1;
      for (; prec <= 17; ++prec) {
        std::snprintf(buf, sizeof buf, "%.*e", prec - 1, n.d);
        if (std::strtod(buf, nullptr) == n.d) break;
      }
      std::string s(buf);
      // mantissa digits and exponent
      auto epos = s.find('e');
      std::string mant = s.substr(0, epos);
      int ex = std::atoi(s.c_str() + epos + 1);
      bool neg = mant[0] == '-';
      if (neg) mant = mant.substr(1);
      std::string digits;
      int frac = 0;
      bool dot = false;
      for (char c : mant) {
        if (c == '.') dot = true;
        else {
          digits += c;
          if (dot) ++frac;
        }
      }
      ex -= frac;
      while (digits.size() > 1 && digits.back() == '0') {
        digits.pop_back();
        ++ex;
      }
      std::string core = digits;
      if (ex > 0) core = "(" + digits + " * 10 ^ " + std::to_string(ex) + ")";
      if (ex < 0) core = "(" + digits + " / 10 ^ " + std::to_string(-ex) + ")";
      if (neg) core = "(- " + core + ")";
      return core;
    }
    std::string expr(int id, bool top = false) {
      if (!top) {
        auto it = names.find(id);
        if (it != names.end()) return it->second;
      }
      const Node& n = Store::get().nodes[id];
      auto A = [&] { return expr(n.a); };
      auto B = [&] { return expr(n.b); };
      auto f1 = [&](const char* f) { return std::string("(") + f + " " + A() + ")"; };
      switch (n.op) {
        case VAR: return n.name;
        case CST:
        case DCST: return cst(n);
        case ADD: return "(" + A() + " + " + B() + ")";
        case SUB: return "(" + A() + " - " + B() + ")";
        case MUL: return "(" + A() + " * " + B() + ")";
        case DIV: return "(" + A() + " / " + B() + ")";
        case NEG: return "(- " + A() + ")";
        case SQRT: return f1("sqrt");
        case ABS: return f1("Rabs");
        case EXP: return f1("exp");
        case LOG: return f1("ln");
        case LOG10: return f1("Rlog10");
        case POW: return "(Rpower " + A() + " " + B() + ")";
        case POWI: {
          const Node& e = Store::get().nodes[n.b];
          if (e.num >= 0) return "(" + A() + " ^ " + std::to_string(e.num) + ")";
          return "(/ (" + A() + " ^ " + std::to_string(-e.num) + "))";
        }
        case COS: return f1("cos");
        case SIN: return f1("sin");
        case TAN: return f1("tan");
        case ACOS: return f1("acos");
        case ASIN: return f1("asin");
        case ATAN: return f1("atan");
        case ATAN2: return "(Ratan2 " + A() + " " + B() + ")";
        case CBRT: return f1("Rcbrt");
        case COSH: return f1("cosh");
        case SINH: return f1("sinh");
        case TANH: return f1("tanh");
        case ACOSH: return f1("Racosh");
        case ASINH: return f1("Rasinh");
        case ATANH: return f1("Ratanh");
        case UFUN: {
          std::string s = "(" + n.name;
          for (int x : n.args) s += " " + expr(x);
          return s + ")";
        }
      }
      return "?";
    }
    // emit let-bindings (in dependency order) for shared non-atomic nodes reachable from roots
    void collect(int id, std::set<int>& seen) {
      if (!seen.insert(id).second) return;
      const Node& n = Store::get().nodes[id];
      if (n.a >= 0) collect(n.a, seen);
      if (n.b >= 0) collect(n.b, seen);
      for (int x : n.args) collect(x, seen);
      if (!atomic(n) && refs[id] > 1) order.push_back(id);
    }
    // prints "let n1 := .. in let n2 := .. in " and records names
    std::string lets(const std::vector<int>& roots) {
      for (int r : roots) count(r);
      std::set<int> seen;
      for (int r : roots) collect(r, seen);
      std::string s;
      for (int id : order) {
        std::string e = expr(id, true);
        std::string nm = "n" + std::to_string(id) + "_";
        s += "  let " + nm + " := " + e + " in\n";
        names[id] = nm;
      }
      return s;
    }
  };

  inline std::string cond_str(Printer& p, const Cond& c) {
    const char* d = c.rel == LT ? "Rlt_dec" : (c.rel == LE ? "Rle_dec" : "Req_EM_T");
    return std::string(d) + " " + p.expr(c.a) + " " + p.expr(c.b);
  }

  struct Trace {
    std::ostringstream out;
    std::string modname;
    int ndefs = 0;
    explicit Trace(const std::string& m) : modname(m) {
      out << "(* GENERATED by /verif engine S (symtrace) from /repo's working tree -- do not edit *)\n"
          << "From Coq Require Import Reals List.\nFrom VLib Require Import RealExtra.\nImport ListNotations.\nLocal Open Scope R_scope.\n\n";
    }
    static std::string params(const std::vector<Sym>& vs) {
      std::string s;
      for (auto& v : vs) {
        const Node& n = Store::get().nodes[node_of(v)];
        if (n.op != VAR) throw SymError("parameter is not a variable");
        s += " " + n.name;
      }
      return s;
    }
    // straight-line definition returning a list of reals
    void def(const std::string& name, const std::vector<Sym>& ps, const std::vector<Sym>& outs) {
      Printer p;
      std::vector<int> roots;
      for (auto& o : outs) roots.push_back(node_of(o));
      std::string l = p.lets(roots);
      out << "Definition " << name << " (" << params(ps) << " : R) : list R :=\n" << l << "  [";
      for (size_t i = 0; i < roots.size(); ++i) out << (i ? ";\n   " : "") << p.expr(roots[i]);
      out << "].\n\n";
      ++ndefs;
    }
    // one scalar
    void def1(const std::string& name, const std::vector<Sym>& ps, const Sym& o) {
      Printer p;
      std::vector<int> roots{node_of(o)};
      std::string l = p.lets(roots);
      out << "Definition " << name << " (" << params(ps) << " : R) : R :=\n" << l << "  " << p.expr(roots[0]) << ".\n\n";
      ++ndefs;
    }
    // when set, def_paths prints `if c then T else T` as T (identical sub-trees up to comments); default: every test is printed
    bool merge_equal_branches = false;
    static std::string strip_comments(const std::string& s) {
      std::string r;
      for (size_t i = 0; i < s.size();) {
        if (s.compare(i, 2, "(*") == 0) {
          const size_t e = s.find("*)", i + 2);
          if (e == std::string::npos) break;
          i = e + 2;
        } else r += s[i++];
      }
      return r;
    }
    // decision tree: leaves in DFS order (true branch first)
    void tree(std::ostringstream& o, Printer& p, const std::vector<Leaf>& ls, size_t lo, size_t hi, size_t depth, int ind) {
      std::string pad(ind, ' ');
      if (hi - lo == 1 && ls[lo].conds.size() == depth) {
        const Leaf& L = ls[lo];
        if (!L.error.empty()) {
          o << pad << "None (* " << L.error.substr(0, 60) << " *)";
          return;
        }
        o << pad << "Some [";
        for (size_t i = 0; i < L.out.size(); ++i) o << (i ? "; " : "") << p.expr(node_of(L.out[i]));
        o << "]";
        return;
      }
      // split on decision at position depth
      size_t mid = lo;
      while (mid < hi && ls[mid].conds.size() > depth && ls[mid].conds[depth].value) ++mid;
      const Cond& c = ls[lo].conds.at(depth);
      if (merge_equal_branches && mid != hi) {
        // optional (off by default): `if c then T else T` is printed as T (the same function, a smaller term for Coq)
        std::ostringstream ot, oe;
        tree(ot, p, ls, lo, mid, depth + 1, ind + 2);
        tree(oe, p, ls, mid, hi, depth + 1, ind + 2);
        if (strip_comments(ot.str()) == strip_comments(oe.str())) {
          tree(o, p, ls, lo, mid, depth + 1, ind);
          return;
        }
        o << pad << "if " << cond_str(p, c) << " then\n" << ot.str() << "\n" << pad << "else\n" << oe.str();
        return;
      }
      o << pad << "if " << cond_str(p, c) << " then\n";
      tree(o, p, ls, lo, mid, depth + 1, ind + 2);
      o << "\n" << pad << "else\n";
      if (mid == hi) throw SymError("decision tree: missing else branch");
      tree(o, p, ls, mid, hi, depth + 1, ind + 2);
    }
    std::vector<Leaf> def_paths(const std::string& name, const std::vector<Sym>& ps,
                                const std::function<std::vector<Sym>()>& f, size_t max_leaves = 20000) {
      auto leaves = enumerate(f, max_leaves);
      Printer p;
      std::vector<int> roots;
      for (auto& L : leaves) {
        for (auto& o : L.out) roots.push_back(node_of(o));
        for (auto& c : L.conds) {
          roots.push_back(c.a);
          roots.push_back(c.b);
        }
      }
      std::string l = p.lets(roots);
      std::ostringstream t;
      tree(t, p, leaves, 0, leaves.size(), 0, 2);
      out << "(* " << leaves.size() << " leaves *)\nDefinition " << name << " (" << params(ps) << " : R) : option (list R) :=\n" << l
          << t.str() << ".\n\n";
      ++ndefs;
      return leaves;
    }
    void raw(const std::string& s) { out << s; }
    void write(const std::string& path) {
      FILE* f = std::fopen(path.c_str(), "w");
      if (!f) throw SymError("cannot write " + path);
      std::string s = out.str();
      std::fwrite(s.data(), 1, s.size(), f);
      std::fclose(f);
    }
  };

  // select the leaf whose conditions hold in env and evaluate its outputs
  inline bool eval_leaves(const std::vector<Leaf>& ls, const Env& env, std::vector<long double>& res, std::string* err = nullptr,
                          const UFunEval* uf = nullptr) {
    for (auto& L : ls) {
      bool ok = true;
      std::map<int, long double> memo;
      for (auto& c : L.conds) {
        long double x = eval_node(c.a, env, memo, uf), y = eval_node(c.b, env, memo, uf);
        bool v = c.rel == LT ? x < y : (c.rel == LE ? x <= y : x == y);
        if (v != c.value) {
          ok = false;
          break;
        }
      }
      if (!ok) continue;
      res.clear();
      if (!L.error.empty()) {
        if (err) *err = L.error;
        return true;
      }
      if (err) err->clear();
      for (auto& o : L.out) res.push_back(eval_node(node_of(o), env, memo, uf));
      return true;
    }
    return false;
  }

  // ---- tiny deterministic PRNG (splitmix64) shared by tracers/drivers
  struct Rng {
    uint64_t s;
    explicit Rng(uint64_t seed) : s(seed * 0x9E3779B97F4A7C15ULL + 0x1234567ULL) {}
    uint64_t next() {
      uint64_t z = (s += 0x9E3779B97F4A7C15ULL);
      z = (z ^ (z >> 30)) * 0xBF58476D1CE4E5B9ULL;
      z = (z ^ (z >> 27)) * 0x94D049BB133111EBULL;
      return z ^ (z >> 31);
    }
    double uni() { return (next() >> 11) * (1.0 / 9007199254740992.0); }
    double range(double a, double b) { return a + (b - a) * uni(); }
    int below(int n) { return static_cast<int>(next() % static_cast<uint64_t>(n)); }
  };

  // agreement helper: relative/absolute tolerance scaled by magnitude of inputs/outputs
  inline bool close(long double a, long double b, long double scale, long double tol = 1e-11L) {
    if (std::isnan(static_cast<double>(a)) || std::isnan(static_cast<double>(b))) return false;
    long double m = std::max<long double>({std::fabs(a), std::fabs(b), scale});
    return std::fabs(a - b) <= tol * m;
  }

}  // namespace symv

namespace std {
  template <>
  struct numeric_limits<symv::Sym> {
    static constexpr bool is_specialized = true;
    static constexpr bool is_signed = true, is_integer = false, is_exact = false, has_infinity = false, has_quiet_NaN = false;
    static constexpr int digits = 53, digits10 = 15, max_digits10 = 17, radix = 2;
    static constexpr symv::Sym epsilon() { return symv::dlit(2.220446049250313e-16); }
    static constexpr symv::Sym min() { return symv::dlit(2.2250738585072014e-308); }
    static constexpr symv::Sym max() { return symv::dlit(1.7976931348623157e+308); }
    static constexpr symv::Sym lowest() { return symv::dlit(-1.7976931348623157e+308); }
    // only to let code that initialises members with these values instantiate (has_quiet_NaN / has_infinity stay false)
    static constexpr symv::Sym quiet_NaN() { return symv::dlit(__builtin_nan("")); }
    static constexpr symv::Sym signaling_NaN() { return symv::dlit(__builtin_nan("")); }
    static constexpr symv::Sym infinity() { return symv::dlit(__builtin_inf()); }
  };
  using symv::abs;
  using symv::acos;
  using symv::acosh;
  using symv::asin;
  using symv::asinh;
  using symv::atan;
  using symv::atan2;
  using symv::atanh;
  using symv::cbrt;
  using symv::cos;
  using symv::cosh;
  using symv::exp;
  using symv::fabs;
  using symv::isfinite;
  using symv::isinf;
  using symv::isnan;
  using symv::log;
  using symv::log10;
  using symv::log1p;
  using symv::pow;
  using symv::sin;
  using symv::sinh;
  using symv::sqrt;
  using symv::tan;
  using symv::tanh;
}  // namespace std

#endif

(* Real functions used by the generated (traced) definitions that the standard library does not name. *)
From Coq Require Import Reals Lra Lia List.
Import ListNotations.
Local Open Scope R_scope.

Definition Rlog10 (x : R) : R := ln x / ln 10.

(* real cube root, odd extension of x^(1/3) *)
Definition Rcbrt (x : R) : R :=
  if Rlt_dec 0 x then Rpower x (/ 3)
  else if Rlt_dec x 0 then - Rpower (- x) (/ 3) else 0.

Lemma Rpower_third_cube x : 0 < x -> Rpower x (/ 3) * Rpower x (/ 3) * Rpower x (/ 3) = x.
Proof.
  intros Hx. rewrite <- !Rpower_plus.
  replace (/ 3 + / 3 + / 3) with 1 by lra. now apply Rpower_1.
Qed.

Lemma Rcbrt_cube x : Rcbrt x * Rcbrt x * Rcbrt x = x.
Proof.
  unfold Rcbrt. destruct (Rlt_dec 0 x) as [Hp|Hnp].
  - now apply Rpower_third_cube.
  - destruct (Rlt_dec x 0) as [Hn|Hnn].
    + assert (H : 0 < - x) by lra. pose proof (Rpower_third_cube _ H) as E.
      replace (- Rpower (- x) (/ 3) * - Rpower (- x) (/ 3) * - Rpower (- x) (/ 3))
        with (- (Rpower (- x) (/ 3) * Rpower (- x) (/ 3) * Rpower (- x) (/ 3))) by ring.
      rewrite E. ring.
    + assert (x = 0) by lra. subst. ring.
Qed.

Lemma Rcbrt_neg x : Rcbrt (- x) = - Rcbrt x.
Proof.
  unfold Rcbrt.
  destruct (Rlt_dec 0 x), (Rlt_dec x 0), (Rlt_dec 0 (- x)), (Rlt_dec (- x) 0); try lra.
  now rewrite Ropp_involutive.
Qed.

Lemma Rcbrt_pos x : 0 < x -> 0 < Rcbrt x.
Proof.
  intros H. unfold Rcbrt. destruct (Rlt_dec 0 x); [|lra]. unfold Rpower. apply exp_pos.
Qed.

Lemma Rcbrt_0 : Rcbrt 0 = 0.
Proof. unfold Rcbrt. destruct (Rlt_dec 0 0); try lra. Qed.

(* two-argument arctangent: any angle whose cosine/sine are proportional to (x, y) *)
Definition Ratan2 (y x : R) : R :=
  if Rlt_dec 0 x then atan (y / x)
  else if Rlt_dec x 0 then (if Rle_dec 0 y then atan (y / x) + PI else atan (y / x) - PI)
  else if Rlt_dec 0 y then PI / 2 else if Rlt_dec y 0 then - PI / 2 else 0.

Definition Racosh (x : R) : R := ln (x + sqrt (x * x - 1)).
Definition Rasinh (x : R) : R := ln (x + sqrt (x * x + 1)).
Definition Ratanh (x : R) : R := / 2 * ln ((1 + x) / (1 - x)).

Lemma sqrt2_sq : sqrt 2 * sqrt 2 = 2.
Proof. apply sqrt_sqrt; lra. Qed.
Lemma sqrt3_sq : sqrt 3 * sqrt 3 = 3.
Proof. apply sqrt_sqrt; lra. Qed.
Lemma sqrt6_sq : sqrt 6 * sqrt 6 = 6.
Proof. apply sqrt_sqrt; lra. Qed.
Lemma sqrt2_pos : 0 < sqrt 2.
Proof. apply sqrt_lt_R0; lra. Qed.
Lemma sqrt3_pos : 0 < sqrt 3.
Proof. apply sqrt_lt_R0; lra. Qed.
Lemma sqrt2_neq0 : sqrt 2 <> 0.
Proof. pose proof sqrt2_pos; lra. Qed.
Lemma sqrt3_neq0 : sqrt 3 <> 0.
Proof. pose proof sqrt3_pos; lra. Qed.

(* list helpers for traced outputs *)
Definition nthR (l : list R) (i : nat) : R := nth i l 0.

(* Closing tactic for polynomial / rational identities over traced terms that contain sqrt 2, sqrt 3. *)
Ltac sqrt_ring := ring [sqrt2_sq sqrt3_sq sqrt6_sq].
Ltac sqrt_field := field_simplify_eq; [ring [sqrt2_sq sqrt3_sq sqrt6_sq] | ..].
